#!/bin/bash
# Entry point of every check:  ./run.sh <Cnn> <quick|thorough>   |   ./run.sh replay <file>   |   ./run.sh selfcheck
# Always rebuilds from the current working tree of $VERIF_REPO (default /repo): instrument -> overlay build -> run.
set -u
export GOFLAGS=-mod=mod GOPROXY=off GOSUMDB=off GOTOOLCHAIN=local
VERIF_DIR="$(cd "$(dirname "$0")" && pwd)"
export VERIF_DIR
REPO="${VERIF_REPO:-/repo}"
BIN="$VERIF_DIR/.bin"
mkdir -p "$BIN"
WORK="$(mktemp -d "${VERIF_WORK:-/var/tmp}/verif-build-XXXXXX")" || exit 3
SHM=""
cleanup() { rm -rf "$WORK"; [ -n "$SHM" ] && rm -rf "$SHM"; }
trap cleanup EXIT

if [ ! -x "$BIN/instr" ] || [ "$VERIF_DIR/engine/instr/main.go" -nt "$BIN/instr" ]; then
  (cd "$VERIF_DIR/engine/instr" && go build -o "$BIN/instr" .) || { echo "cannot build the instrumenter" >&2; exit 3; }
fi
"$BIN/instr" "$REPO" "$WORK/ov" "$VERIF_DIR/engine/rt/rt.go" > "$WORK/instr.log" 2>&1 || { cat "$WORK/instr.log" >&2; echo "instrumentation failed (harness cannot build; no verdict)" >&2; exit 3; }

cat > "$WORK/go.mod" <<MOD
module verifh

go 1.22.0

require github.com/textwire/textwire/v2 v2.0.0

replace github.com/textwire/textwire/v2 => $REPO
MOD
if [ -f "$REPO/go.sum" ]; then cp "$REPO/go.sum" "$WORK/go.sum"; else : > "$WORK/go.sum"; fi

if [ "${1:-}" = "selfcheck" ]; then
  # the repository's own suite must pass on the instrumented sources (rewrites preserve behaviour)
  (cd "$REPO" && go test -tags verif -overlay "$WORK/ov/overlay.json" -vet=off -count=1 ./...) || { echo "selfcheck failed" >&2; exit 3; }
  cat "$WORK/instr.log"
  exit 0
fi

(cd "$VERIF_DIR/engine/h" && go build -tags verif -overlay "$WORK/ov/overlay.json" -modfile "$WORK/go.mod" -o "$WORK/verifh" .) > "$WORK/build.log" 2>&1 || { cat "$WORK/build.log" >&2; echo "harness build failed (no verdict)" >&2; exit 3; }

# C15: a second, -race build of the same harness for the free-running pass
if [ "${1:-}" = "C15" ] || { [ "${1:-}" = "replay" ] && grep -q '"property": "C15"' "${2:-/dev/null}" 2>/dev/null; }; then
  if (cd "$VERIF_DIR/engine/h" && go build -race -tags verif -overlay "$WORK/ov/overlay.json" -modfile "$WORK/go.mod" -o "$WORK/verifh-race" .) > "$WORK/build-race.log" 2>&1; then
    export VERIF_RACE_BIN="$WORK/verifh-race"
  else
    echo "note: the -race build failed; the free-running pass is skipped" >&2; tail -5 "$WORK/build-race.log" >&2
  fi
fi

export VERIF_INSTR_JSON="$WORK/ov/instr.json"
if [ -d /dev/shm ] && [ -w /dev/shm ]; then
  SHM="$(mktemp -d /dev/shm/verif-XXXXXX)"; export VERIF_SHM="$SHM"
fi
case "${1:-}" in
  replay) "$WORK/verifh" replay "$2" ;;
  list)   "$WORK/verifh" list ;;
  *)      "$WORK/verifh" run "$1" "${2:-quick}" ;;
esac
exit $?
