//go:build verif

// Package vatomic replaces "sync/atomic" in instrumented builds: every operation is a
// scheduling point with a happens-before edge on the location, then the real operation.
package vatomic

import (
	"sync/atomic"
	"unsafe"

	rt "github.com/textwire/textwire/v2/zzverifrt"
)

func point(p unsafe.Pointer, write bool) {
	if s := rt.Sched; s != nil {
		s.Atomic(uintptr(p), write)
	}
}

type Bool struct{ v atomic.Bool }

func (x *Bool) Load() bool       { point(unsafe.Pointer(x), false); return x.v.Load() }
func (x *Bool) Store(b bool)     { point(unsafe.Pointer(x), true); x.v.Store(b) }
func (x *Bool) Swap(b bool) bool { point(unsafe.Pointer(x), true); return x.v.Swap(b) }
func (x *Bool) CompareAndSwap(o, n bool) bool {
	point(unsafe.Pointer(x), true)
	return x.v.CompareAndSwap(o, n)
}

type Int32 struct{ v atomic.Int32 }

func (x *Int32) Load() int32        { point(unsafe.Pointer(x), false); return x.v.Load() }
func (x *Int32) Store(n int32)      { point(unsafe.Pointer(x), true); x.v.Store(n) }
func (x *Int32) Add(n int32) int32  { point(unsafe.Pointer(x), true); return x.v.Add(n) }
func (x *Int32) Swap(n int32) int32 { point(unsafe.Pointer(x), true); return x.v.Swap(n) }
func (x *Int32) CompareAndSwap(o, n int32) bool {
	point(unsafe.Pointer(x), true)
	return x.v.CompareAndSwap(o, n)
}

type Int64 struct{ v atomic.Int64 }

func (x *Int64) Load() int64        { point(unsafe.Pointer(x), false); return x.v.Load() }
func (x *Int64) Store(n int64)      { point(unsafe.Pointer(x), true); x.v.Store(n) }
func (x *Int64) Add(n int64) int64  { point(unsafe.Pointer(x), true); return x.v.Add(n) }
func (x *Int64) Swap(n int64) int64 { point(unsafe.Pointer(x), true); return x.v.Swap(n) }
func (x *Int64) CompareAndSwap(o, n int64) bool {
	point(unsafe.Pointer(x), true)
	return x.v.CompareAndSwap(o, n)
}

type Uint32 struct{ v atomic.Uint32 }

func (x *Uint32) Load() uint32        { point(unsafe.Pointer(x), false); return x.v.Load() }
func (x *Uint32) Store(n uint32)      { point(unsafe.Pointer(x), true); x.v.Store(n) }
func (x *Uint32) Add(n uint32) uint32 { point(unsafe.Pointer(x), true); return x.v.Add(n) }
func (x *Uint32) CompareAndSwap(o, n uint32) bool {
	point(unsafe.Pointer(x), true)
	return x.v.CompareAndSwap(o, n)
}

type Uint64 struct{ v atomic.Uint64 }

func (x *Uint64) Load() uint64        { point(unsafe.Pointer(x), false); return x.v.Load() }
func (x *Uint64) Store(n uint64)      { point(unsafe.Pointer(x), true); x.v.Store(n) }
func (x *Uint64) Add(n uint64) uint64 { point(unsafe.Pointer(x), true); return x.v.Add(n) }
func (x *Uint64) CompareAndSwap(o, n uint64) bool {
	point(unsafe.Pointer(x), true)
	return x.v.CompareAndSwap(o, n)
}

type Value struct{ v atomic.Value }

func (x *Value) Load() any      { point(unsafe.Pointer(x), false); return x.v.Load() }
func (x *Value) Store(val any)  { point(unsafe.Pointer(x), true); x.v.Store(val) }
func (x *Value) Swap(n any) any { point(unsafe.Pointer(x), true); return x.v.Swap(n) }
func (x *Value) CompareAndSwap(o, n any) bool {
	point(unsafe.Pointer(x), true)
	return x.v.CompareAndSwap(o, n)
}

type Pointer[T any] struct{ v atomic.Pointer[T] }

func (x *Pointer[T]) Load() *T     { point(unsafe.Pointer(x), false); return x.v.Load() }
func (x *Pointer[T]) Store(p *T)   { point(unsafe.Pointer(x), true); x.v.Store(p) }
func (x *Pointer[T]) Swap(p *T) *T { point(unsafe.Pointer(x), true); return x.v.Swap(p) }
func (x *Pointer[T]) CompareAndSwap(o, n *T) bool {
	point(unsafe.Pointer(x), true)
	return x.v.CompareAndSwap(o, n)
}

func LoadInt32(p *int32) int32         { point(unsafe.Pointer(p), false); return atomic.LoadInt32(p) }
func StoreInt32(p *int32, v int32)     { point(unsafe.Pointer(p), true); atomic.StoreInt32(p, v) }
func AddInt32(p *int32, d int32) int32 { point(unsafe.Pointer(p), true); return atomic.AddInt32(p, d) }
func CompareAndSwapInt32(p *int32, o, n int32) bool {
	point(unsafe.Pointer(p), true)
	return atomic.CompareAndSwapInt32(p, o, n)
}
func LoadInt64(p *int64) int64         { point(unsafe.Pointer(p), false); return atomic.LoadInt64(p) }
func StoreInt64(p *int64, v int64)     { point(unsafe.Pointer(p), true); atomic.StoreInt64(p, v) }
func AddInt64(p *int64, d int64) int64 { point(unsafe.Pointer(p), true); return atomic.AddInt64(p, d) }
func CompareAndSwapInt64(p *int64, o, n int64) bool {
	point(unsafe.Pointer(p), true)
	return atomic.CompareAndSwapInt64(p, o, n)
}
func LoadUint32(p *uint32) uint32     { point(unsafe.Pointer(p), false); return atomic.LoadUint32(p) }
func StoreUint32(p *uint32, v uint32) { point(unsafe.Pointer(p), true); atomic.StoreUint32(p, v) }
func AddUint32(p *uint32, d uint32) uint32 {
	point(unsafe.Pointer(p), true)
	return atomic.AddUint32(p, d)
}
func CompareAndSwapUint32(p *uint32, o, n uint32) bool {
	point(unsafe.Pointer(p), true)
	return atomic.CompareAndSwapUint32(p, o, n)
}
func LoadUint64(p *uint64) uint64     { point(unsafe.Pointer(p), false); return atomic.LoadUint64(p) }
func StoreUint64(p *uint64, v uint64) { point(unsafe.Pointer(p), true); atomic.StoreUint64(p, v) }
func AddUint64(p *uint64, d uint64) uint64 {
	point(unsafe.Pointer(p), true)
	return atomic.AddUint64(p, d)
}
func LoadPointer(p *unsafe.Pointer) unsafe.Pointer {
	point(unsafe.Pointer(p), false)
	return atomic.LoadPointer(p)
}
func StorePointer(p *unsafe.Pointer, v unsafe.Pointer) {
	point(unsafe.Pointer(p), true)
	atomic.StorePointer(p, v)
}
