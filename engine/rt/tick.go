//go:build verif && !race

package zzverifrt

// SiteCounts, when non-nil, receives per-site tick counts (used only by the confirmation run of
// a suspected hang, to name the loop that was spinning).
var SiteCounts []int64

func Tick(site int) {
	Fuel++
	if SiteCounts != nil && site < len(SiteCounts) {
		SiteCounts[site]++
	}
	if Fuel > FuelLimit {
		LastSite = site
		panic(FuelExhausted{site})
	}
}

