//go:build verif

// Package zzverifrt is the runtime linked into instrumented ("-tags verif -overlay") builds of
// textwire. It is mapped into the textwire module as a virtual package by the overlay, so the
// repository itself never contains it. With no explorer attached every hook is inert.
package zzverifrt

import (
	"fmt"
	"reflect"
	"sort"
)

// ---------------------------------------------------------------- fuel (R-fuel)

var Fuel int64
var FuelLimit int64 = 1 << 62
var LastSite int

// FuelExhausted is the panic value raised when one case has executed more than FuelLimit ticks.
type FuelExhausted struct{ Site int }

// ---------------------------------------------------------------- map order (R-order)

type Entry[K comparable, V any] struct {
	K K
	V V
}

// OrderHook, when set, is asked for a permutation of 0..n-1 (over the key-sorted entries).
var OrderHook func(site int, n int) []int

func Order[K comparable, V any](site int, m map[K]V) []Entry[K, V] {
	es := make([]Entry[K, V], 0, len(m))
	for k, v := range m {
		es = append(es, Entry[K, V]{k, v})
	}
	if OrderHook == nil {
		return es
	}
	sort.Slice(es, func(i, j int) bool { return fmt.Sprint(es[i].K) < fmt.Sprint(es[j].K) })
	perm := OrderHook(site, len(es))
	if len(perm) != len(es) {
		panic("zzverifrt: OrderHook returned a permutation of the wrong length")
	}
	out := make([]Entry[K, V], len(es))
	for i, p := range perm {
		out[i] = es[p]
	}
	return out
}

// OrderSlice is used for reflect.Value.MapKeys(): the slice is sorted by fmt.Sprint and permuted.
func OrderSlice[T any](site int, s []T, key func(T) string) []T {
	if OrderHook == nil {
		return s
	}
	c := append([]T(nil), s...)
	sort.Slice(c, func(i, j int) bool { return key(c[i]) < key(c[j]) })
	perm := OrderHook(site, len(c))
	out := make([]T, len(c))
	for i, p := range perm {
		out[i] = c[p]
	}
	return out
}

// ---------------------------------------------------------------- package variables (R-state, R-access)

type VarInfo struct {
	ID   int
	Name string
	Ptr  any
}

var Vars []VarInfo

func RegisterVar(id int, name string, ptr any) { Vars = append(Vars, VarInfo{id, name, ptr}) }

// AccessHook, when set, is called before every access to a package-level variable of the
// module made from inside a function body. kind is 'R', 'W' (syntactically definite write) or
// 'A' (address taken / method call: opaque).
var AccessHook func(id int, kind byte)

func R[T any](id int, p *T) *T {
	if AccessHook != nil {
		AccessHook(id, 'R')
	}
	return p
}

func W[T any](id int, p *T) *T {
	if AccessHook != nil {
		AccessHook(id, 'W')
	}
	return p
}

func A[T any](id int, p *T) *T {
	if AccessHook != nil {
		AccessHook(id, 'A')
	}
	return p
}

// Resets registered by generated code: one per package, replaying the initialisers of the
// package-level variables in dependency order (and zeroing the ones without initialiser).
type resetEntry struct {
	pkg  string
	root bool
	fn   func()
}

var resets []resetEntry

func RegisterReset(pkg string, root bool, f func()) {
	resets = append(resets, resetEntry{pkg, root, f})
}

// ResetRoot re-initialises the package-level state of the root package (configuration, custom
// function registry, mode flag).
func ResetRoot() {
	for _, r := range resets {
		if r.root {
			r.fn()
		}
	}
}

// ResetAll re-initialises every instrumented package.
func ResetAll() {
	for _, r := range resets {
		r.fn()
	}
}

// OrderValues is Order for reflect.Value.MapKeys().
func OrderValues(site int, s []reflect.Value) []reflect.Value {
	return OrderSlice(site, s, func(v reflect.Value) string { return fmt.Sprint(v) })
}

// ---------------------------------------------------------------- cooperative scheduler seam (C15)

// Scheduler is implemented by the harness. With no scheduler attached the shim types in
// vsync / vatomic fall through to the real primitives.
type Scheduler interface {
	MutexLock(key uintptr)
	MutexUnlock(key uintptr)
	RLock(key uintptr)
	RUnlock(key uintptr)
	Atomic(key uintptr, write bool) // scheduling point + happens-before edge on the atomic location
}

var Sched Scheduler
