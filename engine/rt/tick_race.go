//go:build verif && race

package zzverifrt

// In the -race build (free-running pass of C15) the fuel counter is disabled: it is shared by
// all goroutines on purpose-free terms and would itself be reported by the race detector.
var SiteCounts []int64

func Tick(site int) {}
