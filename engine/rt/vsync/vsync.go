//go:build verif

// Package vsync replaces "sync" in instrumented builds: Mutex and RWMutex become scheduling
// points with happens-before edges under the cooperative scheduler and behave like the real
// ones when no scheduler is attached. Everything else is the real thing.
package vsync

import (
	"runtime"
	"sync"
	"unsafe"

	rt "github.com/textwire/textwire/v2/zzverifrt"
)

type (
	Map       = sync.Map
	Pool      = sync.Pool
	Cond      = sync.Cond
	WaitGroup = sync.WaitGroup
	Locker    = sync.Locker
)

func NewCond(l Locker) *Cond { return sync.NewCond(l) }

func OnceFunc(f func()) func() { return sync.OnceFunc(f) }

// OnceValue and OnceValues are built on this package's Once, so a concurrent first call is a
// scheduling point like any other lock.
func OnceValue[T any](f func() T) func() T {
	var (
		once Once
		v    T
	)
	return func() T {
		once.Do(func() { v = f() })
		return v
	}
}

func OnceValues[T1, T2 any](f func() (T1, T2)) func() (T1, T2) {
	var (
		once Once
		a    T1
		b    T2
	)
	return func() (T1, T2) {
		once.Do(func() { a, b = f() })
		return a, b
	}
}

// wait makes waiting visible when no scheduler is attached: a lock that cannot be taken is polled, every poll
// consumes fuel, so a lock that is never released ends in the harness's Hang verdict instead of blocking the
// worker for ever (in the -race build fuel is disabled and this is an ordinary spin-wait).
func wait(try func() bool) {
	for !try() {
		rt.Tick(0)
		runtime.Gosched()
	}
}

type Mutex struct {
	real sync.Mutex
	pad  byte // makes the zero-size case impossible: the address identifies the mutex
}

func (m *Mutex) Lock() {
	if s := rt.Sched; s != nil {
		s.MutexLock(uintptr(unsafe.Pointer(m)))
		return
	}
	wait(m.real.TryLock)
}

func (m *Mutex) Unlock() {
	if s := rt.Sched; s != nil {
		s.MutexUnlock(uintptr(unsafe.Pointer(m)))
		return
	}
	m.real.Unlock()
}

func (m *Mutex) TryLock() bool {
	if rt.Sched != nil {
		panic("vsync: TryLock is not modelled")
	}
	return m.real.TryLock()
}

type RWMutex struct {
	real sync.RWMutex
	pad  byte
}

func (m *RWMutex) Lock() {
	if s := rt.Sched; s != nil {
		s.MutexLock(uintptr(unsafe.Pointer(m)))
		return
	}
	wait(m.real.TryLock)
}

func (m *RWMutex) Unlock() {
	if s := rt.Sched; s != nil {
		s.MutexUnlock(uintptr(unsafe.Pointer(m)))
		return
	}
	m.real.Unlock()
}

func (m *RWMutex) RLock() {
	if s := rt.Sched; s != nil {
		s.RLock(uintptr(unsafe.Pointer(m)))
		return
	}
	wait(m.real.TryRLock)
}

func (m *RWMutex) RUnlock() {
	if s := rt.Sched; s != nil {
		s.RUnlock(uintptr(unsafe.Pointer(m)))
		return
	}
	m.real.RUnlock()
}

func (m *RWMutex) RLocker() Locker { return (*rlocker)(m) }

type rlocker RWMutex

func (r *rlocker) Lock()   { (*RWMutex)(r).RLock() }
func (r *rlocker) Unlock() { (*RWMutex)(r).RUnlock() }

// Once: the first Do runs f while holding the once's lock, later ones wait for it (modelled
// with the scheduler's mutex so that a concurrent Do blocks instead of spinning).
type Once struct {
	m    Mutex
	done bool
}

func (o *Once) Do(f func()) {
	o.m.Lock()
	defer o.m.Unlock()
	if !o.done {
		defer func() { o.done = true }()
		f()
	}
}
