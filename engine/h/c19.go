package main

import (
	"fmt"
	"regexp"
	"strings"

	"github.com/textwire/textwire/v2/lexer"
	"github.com/textwire/textwire/v2/token"
)

// C19 — token positions are exact, ordered and tile the source.

type c19Case struct {
	Lex []int  `json:"lex,omitempty"`
	Src string `json:"src,omitempty"` // explicit source (multi-line corpus)
}

var c19Lexemes = []string{
	"a", " ", "\n", "{{", "}}", "1", "x", "@if(", ")", "@end", `"s"`, "{{-- c --}}", "\\{{", "é", "+", "==",
	"@else", "'t'", "\"a\nb\"", `"q\"r"`, "{{--\n--}}", "\\@if", "\r\n", "++", "2.5", ".", "(", "[", "]", "{", "}", ",",
	"@each(", "in", "@slot", "@dump(", "\t", "^", `"`, "x1", "--", "@elseif(", "@breakIf(", "@break", "<=", "\xff", "\xa0", "\x85", "\v", "\f", "\x00",
}

func c19Src(cs c19Case) string {
	if cs.Lex == nil {
		return cs.Src
	}
	var sb strings.Builder
	for _, ix := range cs.Lex {
		sb.WriteString(c19Lexemes[ix])
	}
	return sb.String()
}

// a gap may hold whitespace and complete comments ({{--}} and {{---}}, where opener and
// terminator overlap, are accepted as comments too: the statement does not pin them down)
var c19GapRe = regexp.MustCompile(`(?s)^(?:[ \t\r\n]|\{\{---?\}\}|\{\{--.*?--\}\})*$`)

// c19Unescape removes the escape backslashes of a text run (before "{{" and before @keyword).
func c19Unescape(seg string) string {
	var sb strings.Builder
	for i := 0; i < len(seg); i++ {
		if seg[i] == '\\' && i+1 < len(seg) {
			if strings.HasPrefix(seg[i+1:], "{{") || (seg[i+1] == '@' && c05KeywordAt(seg, i+1)) {
				continue
			}
		}
		sb.WriteByte(seg[i])
	}
	return sb.String()
}

func c19Check(cs c19Case) (ok bool, sig, expected, observed string) {
	src := c19Src(cs)
	expected = "tokens ordered, non-overlapping, exact start/end, gaps only whitespace/comments, EOF one past the last byte, every cursor in at most one token"
	// independent byte offset <-> (line, column) table
	lineStart := []int{0}
	for i := 0; i < len(src); i++ {
		if src[i] == '\n' {
			lineStart = append(lineStart, i+1)
		}
	}
	offsetOf := func(line, col uint) (int, bool) {
		if int(line) >= len(lineStart) {
			return 0, false
		}
		off := lineStart[line] + int(col)
		end := len(src)
		if int(line)+1 < len(lineStart) {
			end = lineStart[line+1] - 1 // the newline byte is the last column of its line
		}
		if off > end {
			return 0, false
		}
		return off, true
	}
	type tk struct {
		t          token.Token
		start, end int
	}
	var toks []tk
	var fail, eofAgain string
	o := guard(func() Outcome {
		toks = nil
		fail = ""
		l := lexer.New(src)
		for i := 0; i <= len(src)+2; i++ {
			t := l.NextToken()
			toks = append(toks, tk{t: t})
			if t.Type == token.EOF {
				// asking again gives the same end-of-input token, at the same place
				for k := 0; k < 3; k++ {
					if again := l.NextToken(); again.Type != token.EOF || again.Pos != t.Pos {
						fail = "eof-token-moves-when-asked-again"
						eofAgain = fmt.Sprintf("EOF [%d:%d-%d:%d], then %s [%d:%d-%d:%d]", t.Pos.StartLine, t.Pos.StartCol, t.Pos.EndLine, t.Pos.EndCol, token.String(again.Type), again.Pos.StartLine, again.Pos.StartCol, again.Pos.EndLine, again.Pos.EndCol)
					}
				}
			}
			if t.Type == token.ILLEGAL {
				// when the lexer is asked once more and answers with the end-of-input token, that token sits where it always sits
				if after := l.NextToken(); after.Type == token.EOF {
					toks = append(toks, tk{t: after})
				}
			}
			if t.Type == token.EOF || t.Type == token.ILLEGAL {
				return Outcome{Kind: KOut}
			}
		}
		return Outcome{Kind: KHang, Site: "lexer: more tokens than bytes"}
	})
	if o.Kind != KOut {
		return false, o.Kind + "@" + o.Site, expected, o.String()
	}
	if fail == "eof-token-moves-when-asked-again" {
		return false, fail, expected, eofAgain + " in " + strconvQuote(src)
	}
	fail = ""
	describe := func(t token.Token) string {
		return fmt.Sprintf("%s %q [%d:%d-%d:%d]", token.String(t.Type), t.Literal, t.Pos.StartLine, t.Pos.StartCol, t.Pos.EndLine, t.Pos.EndCol)
	}
	prevEnd := -1
	for i := range toks {
		t := toks[i].t
		name := token.String(t.Type)
		if t.Type == token.ILLEGAL {
			// the terminating token: only its start is compared (it covers no complete lexeme)
			s, okS := offsetOf(t.Pos.StartLine, t.Pos.StartCol)
			if !okS && !(len(src) == 0) {
				if s2, ok2 := offsetOf(t.Pos.StartLine, t.Pos.StartCol); !ok2 || s2 > len(src) {
					fail = "illegal-token-position-outside-source"
				}
			}
			// an ILLEGAL token stands on bytes of the source (what is unterminated is reported where it begins,
			// not behind the last byte, where the end-of-input token sits)
			if okS && s >= len(src) && len(src) > 0 && fail == "" {
				fail = "illegal-token-behind-the-last-byte"
				observed = describe(t) + fmt.Sprintf(" for source of %d bytes", len(src))
			}
			// an ILLEGAL token that stands on a byte of the source carries exactly that byte as its text
			// (the one raised at the end of the input, for something unterminated, has no byte to carry)
			if okS && s < len(src) && fail == "" {
				e, okE := offsetOf(t.Pos.EndLine, t.Pos.EndCol)
				if okE && e == s && t.Literal != src[s:s+1] {
					fail = "illegal-token-text-differs-from-source"
					observed = describe(t) + fmt.Sprintf(", the source has %q there", src[s:s+1])
				}
			}
			if fail == "" && i+1 < len(toks) && toks[i+1].t.Type == token.EOF {
				et := toks[i+1].t
				es, okS := offsetOf(et.Pos.StartLine, et.Pos.StartCol)
				ee, okE := offsetOf(et.Pos.EndLine, et.Pos.EndCol)
				if !okS || !okE || es != len(src) || ee != len(src) {
					fail = "eof-after-illegal-not-one-past-last-byte"
					observed = describe(t) + ", then " + describe(et) + fmt.Sprintf(" for source of %d bytes", len(src))
				}
			}
			break
		}
		if t.Type == token.EOF {
			s, okS := offsetOf(t.Pos.StartLine, t.Pos.StartCol)
			e, okE := offsetOf(t.Pos.EndLine, t.Pos.EndCol)
			if !okS || !okE || s != len(src) || e != len(src) {
				fail = "eof-not-one-past-last-byte"
				observed = describe(t) + fmt.Sprintf(" for source of %d bytes, %d lines", len(src), len(lineStart))
			}
			gap := src[prevEnd+1:]
			if fail == "" && !c19GapRe.MatchString(gap) {
				fail = "gap-before-EOF-not-blank"
				observed = fmt.Sprintf("gap %q before EOF", gap)
			}
			break
		}
		s, okS := offsetOf(t.Pos.StartLine, t.Pos.StartCol)
		e, okE := offsetOf(t.Pos.EndLine, t.Pos.EndCol)
		if !okS || !okE || e >= len(src) {
			fail = "position-outside-source/" + name
			observed = describe(t)
			break
		}
		if e < s {
			fail = "end-before-start/" + name
			observed = describe(t)
			break
		}
		if s <= prevEnd {
			fail = "overlap-or-disorder/" + name
			observed = describe(t) + fmt.Sprintf(" starts at byte %d, previous token ended at byte %d", s, prevEnd)
			break
		}
		gap := src[prevEnd+1 : s]
		if !c19GapRe.MatchString(gap) {
			fail = "gap-not-blank/" + name
			observed = fmt.Sprintf("gap %q before %s", gap, describe(t))
			break
		}
		seg := src[s : e+1]
		switch t.Type {
		case token.STR:
			q := seg[0]
			unterminated := e == len(src)-1 && (len(seg) < 2 || seg[len(seg)-1] != q || strings.HasSuffix(seg, "\\"+string(q)) && !strings.HasSuffix(seg, "\\\\"+string(q)))
			if q != '"' && q != '\'' {
				fail = "text-mismatch/STR"
			} else if !unterminated {
				if len(seg) < 2 || seg[len(seg)-1] != q || strings.ReplaceAll(seg[1:len(seg)-1], "\\"+string(q), string(q)) != t.Literal {
					fail = "text-mismatch/STR"
				}
			}
		case token.HTML:
			if c19Unescape(seg) != t.Literal {
				fail = "text-mismatch/HTML"
			}
		default:
			if seg != t.Literal {
				fail = "text-mismatch/" + name
			}
		}
		if fail != "" {
			observed = fmt.Sprintf("source bytes %q vs %s", seg, describe(t))
			break
		}
		toks[i].start, toks[i].end = s, e
		prevEnd = e
	}
	if fail != "" {
		return false, fail, expected, observed + " in " + strconvQuote(src)
	}
	// every cursor of the input
	for off := 0; off <= len(src); off++ {
		line := 0
		for line+1 < len(lineStart) && lineStart[line+1] <= off {
			line++
		}
		col := off - lineStart[line]
		cover := -1
		for i := range toks {
			t := toks[i].t
			if t.Type == token.EOF || t.Type == token.ILLEGAL {
				continue
			}
			if off >= toks[i].start && off <= toks[i].end {
				cover = i
			}
		}
		n := 0
		hit := -1
		for i := range toks {
			t := toks[i].t
			if t.Type == token.EOF || t.Type == token.ILLEGAL {
				continue
			}
			if t.Pos.Contains(uint(line), uint(col)) {
				n++
				hit = i
			}
		}
		if n > 1 {
			return false, "cursor-in-two-tokens", expected, fmt.Sprintf("cursor %d:%d is inside %d tokens in %s", line, col, n, strconvQuote(src))
		}
		if cover >= 0 && hit != cover {
			return false, "cursor-not-in-covering-token/" + token.String(toks[cover].t.Type), expected,
				fmt.Sprintf("cursor %d:%d (byte %d) is covered by %s but Contains says token #%d in %s", line, col, off, describe(toks[cover].t), hit, strconvQuote(src))
		}
		if cover < 0 && n == 1 && off < len(src) {
			return false, "cursor-in-gap-claimed/" + token.String(toks[hit].t.Type), expected,
				fmt.Sprintf("cursor %d:%d (byte %d) lies in a gap but %s contains it, in %s", line, col, off, describe(toks[hit].t), strconvQuote(src))
		}
	}
	return true, "", expected, fmt.Sprintf("%d tokens", len(toks))
}

var c19Corpus = []string{
	"line1\nline2\n{{ x }}\n",
	"{{\n1\n+\n2\n}}",
	"a\r\nb\r\n{{ \"s\r\nt\" }}\r\n",
	"@if(\n x \n)\nA\n@else\nB\n@end\n",
	"{{-- one\ntwo --}}\nafter{{ 1 }}",
	"é{{ \"é\" }}é\n@each(v in [1,\n2])\n{{ v }}\n@end",
	"\\{{ not code }}\n\\@if(x)\n{{ y }}",
	"\n\n\n",
	"{{ {a: 1,\n b: \"x\"} }}",
	"@component(\"c\", {a: 1})\n@slot(\"n\")\nbody\n@end\n@end\n",
}

func c19Run(c *Ctx) {
	order := int64(0)
	do := func(cs c19Case, k int) bool {
		if c.Expired() {
			return false
		}
		order++
		c.Trace(cs)
		ok, sig, exp, obs := c19Check(cs)
		c.Evals(1)
		src := c19Src(cs)
		c.Case(strings.ContainsAny(src, "\n\\\"'") || strings.Contains(src, "{{--") || strings.Contains(src, "é"))
		if order%1499 == 1 {
			c.Sample(map[string]any{"src": src, "result": obs})
		}
		if !ok {
			c.Report(sig, int64(k)*100000000+int64(len(src))*100000+order%100000, cs, exp, obs, "")
		}
		return true
	}
	if c.Mine() {
		for _, s := range c19Corpus {
			// the corpus and every prefix of it
			for cut := 0; cut <= len(s); cut++ {
				if !do(c19Case{Src: s[:cut]}, 0) {
					return
				}
			}
		}
	}
	maxK := 4
	if c.Thorough() {
		maxK = 6
	}
	for k := 1; k <= maxK; k++ {
		n := len(c19Lexemes)
		if k == 6 {
			n = 18
		}
		if !seqEnum(c, n, k, func(idx []int) bool { return do(c19Case{Lex: append([]int{}, idx...)}, k) }) {
			return
		}
	}
}

func init() {
	p := &Property{
		ID:    "C19",
		Level: "exploration",
		Rule: "bounded-exhaustive: every concatenation of <=k lexemes over an alphabet with multi-line strings, comments, CRLF, escapes, non-ASCII and an illegal byte, plus every byte prefix of a multi-line corpus; the token stream is checked against an independent byte-offset <-> (line, column) table (an invariant, no second lexer) and every cursor position of the input against Position.Contains. " +
			"Non-trivial: the input contains a newline, a quote, a backslash, a comment or a multi-byte character",
		Bounds: func(tier string) map[string]any {
			if tier == "thorough" {
				return map[string]any{"lexemes": len(c19Lexemes), "seq_len": 5, "seq_len_first_18_lexemes": 6, "corpus": len(c19Corpus)}
			}
			return map[string]any{"lexemes": len(c19Lexemes), "seq_len": 4, "corpus": len(c19Corpus)}
		},
		Assume: []string{"the terminating ILLEGAL token is compared by its start (inside the source) and, when it is one byte long, by its text", "an unterminated string is only required to extend to the last byte"},
		Run:    c19Run,
	}
	registerTyped(p, c19Check)
}
