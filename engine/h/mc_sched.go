package main

import (
	"fmt"
	"sort"

	rt "github.com/textwire/textwire/v2/zzverifrt"
)

// Preemption-bounded schedule DFS with a cooperative scheduler (DESIGN.md section 3, explorer 4).
// Harness threads are real goroutines of which exactly one runs at a time; control changes
// hands only at scheduling points: accesses to "hot" package-level variables (those written by
// some operation of the scenario), atomic operations and mutex operations of the shims.

type schedPoint struct {
	Enabled        []int `json:"enabled"` // canonical order: the running thread first if still enabled, then ascending ids
	Chosen         int   `json:"chosen"`  // index into Enabled
	RunningEnabled bool  `json:"running_enabled"`
}

type cthread struct {
	id          int
	resume      chan struct{}
	ops         []func() string
	results     []string
	done        bool
	blockedOn   uintptr
	blockedRead bool
	vc          []int
}

type mstate struct {
	writer  int // thread id holding it exclusively, -1 none
	readers map[int]int
	vc      []int
}

type varState struct {
	lastWTid   int
	lastWClock int
	reads      map[int]int
	lastKind   byte
}

type coopSched struct {
	threads  []*cthread
	events   chan int
	cur      int
	hot      map[int]bool
	syncVars map[int]bool
	prefix   []int
	trace    []schedPoint
	mutexes  map[uintptr]*mstate
	atomVC   map[uintptr][]int
	vars     map[int]*varState
	races    map[string]bool
	newHot   map[int]bool
	deadlock bool
	diverged string
	points   int
	varNames func(int) string
}

func newCoopSched(opsPerThread [][]func() string, hot, syncVars map[int]bool, prefix []int, varNames func(int) string) *coopSched {
	s := &coopSched{events: make(chan int), cur: -1, hot: hot, syncVars: syncVars, prefix: prefix,
		mutexes: map[uintptr]*mstate{}, atomVC: map[uintptr][]int{}, vars: map[int]*varState{}, races: map[string]bool{}, newHot: map[int]bool{}, varNames: varNames}
	n := len(opsPerThread)
	for i, ops := range opsPerThread {
		t := &cthread{id: i, resume: make(chan struct{}), ops: ops, vc: make([]int, n)}
		t.vc[i] = 1
		s.threads = append(s.threads, t)
	}
	return s
}

func joinVC(a, b []int) []int {
	if len(b) == 0 {
		return a
	}
	out := make([]int, len(a))
	for i := range a {
		out[i] = a[i]
		if i < len(b) && b[i] > out[i] {
			out[i] = b[i]
		}
	}
	return out
}

// park hands control back to the scheduler and waits to be resumed.
func (s *coopSched) park() {
	t := s.threads[s.cur]
	s.events <- t.id
	<-t.resume
}

// ---- rt.Scheduler

func (s *coopSched) mutex(key uintptr) *mstate {
	m := s.mutexes[key]
	if m == nil {
		m = &mstate{writer: -1, readers: map[int]int{}}
		s.mutexes[key] = m
	}
	return m
}

func (s *coopSched) MutexLock(key uintptr) {
	s.points++
	s.park() // the lock attempt is a scheduling point
	t := s.threads[s.cur]
	m := s.mutex(key)
	for m.writer >= 0 || len(m.readers) > 0 {
		t.blockedOn, t.blockedRead = key, false
		s.park()
		t = s.threads[s.cur]
	}
	t.blockedOn = 0
	m.writer = t.id
	t.vc = joinVC(t.vc, m.vc)
}

func (s *coopSched) MutexUnlock(key uintptr) {
	t := s.threads[s.cur]
	m := s.mutex(key)
	m.writer = -1
	m.vc = append([]int(nil), t.vc...)
	t.vc[t.id]++
}

func (s *coopSched) RLock(key uintptr) {
	s.points++
	s.park()
	t := s.threads[s.cur]
	m := s.mutex(key)
	for m.writer >= 0 {
		t.blockedOn, t.blockedRead = key, true
		s.park()
		t = s.threads[s.cur]
	}
	t.blockedOn = 0
	m.readers[t.id]++
	t.vc = joinVC(t.vc, m.vc)
}

func (s *coopSched) RUnlock(key uintptr) {
	t := s.threads[s.cur]
	m := s.mutex(key)
	if m.readers[t.id]--; m.readers[t.id] <= 0 {
		delete(m.readers, t.id)
	}
	m.vc = joinVC(append([]int(nil), t.vc...), m.vc)
	t.vc[t.id]++
}

func (s *coopSched) Atomic(key uintptr, write bool) {
	s.points++
	s.park() // scheduling point before the operation
	t := s.threads[s.cur]
	t.vc = joinVC(t.vc, s.atomVC[key])
	if write {
		s.atomVC[key] = append([]int(nil), t.vc...)
		t.vc[t.id]++
	}
}

// access is installed as rt.AccessHook.
func (s *coopSched) access(id int, kind byte) {
	if s.cur < 0 || s.syncVars[id] {
		return
	}
	if s.hot[id] {
		s.points++
		s.park()
	} else if kind != 'R' {
		s.newHot[id] = true // a location written in an interleaved run that profiling did not see: re-close
	}
	t := s.threads[s.cur]
	v := s.vars[id]
	if v == nil {
		v = &varState{lastWTid: -1, reads: map[int]int{}}
		s.vars[id] = v
	}
	name := fmt.Sprint(id)
	if s.varNames != nil {
		name = s.varNames(id)
	}
	if v.lastWTid >= 0 && v.lastWTid != t.id && v.lastWClock > t.vc[v.lastWTid] {
		k := "write/write"
		if kind != 'W' {
			k = "write/read"
		}
		s.races[k+" on "+name] = true
	}
	if kind == 'W' {
		for rt, rc := range v.reads {
			if rt != t.id && rc > t.vc[rt] {
				s.races["read/write on "+name] = true
			}
		}
		v.lastWTid, v.lastWClock = t.id, t.vc[t.id]
		v.reads = map[int]int{}
	} else {
		v.reads[t.id] = t.vc[t.id]
	}
}

func (s *coopSched) enabledThreads() []int {
	var out []int
	for _, t := range s.threads {
		if t.done {
			continue
		}
		if t.blockedOn != 0 {
			m := s.mutex(t.blockedOn)
			if m.writer >= 0 && m.writer != t.id {
				continue
			}
			// readers block a waiting writer; a waiting reader only waits for the writer
			if !t.blockedRead && len(m.readers) > 0 {
				continue
			}
		}
		out = append(out, t.id)
	}
	return out
}

// run executes the scenario under the given choice prefix (default choice 0 afterwards).
func (s *coopSched) run() {
	rt.Sched = s
	rt.AccessHook = s.access
	defer func() { rt.Sched = nil; rt.AccessHook = nil }()
	for _, t := range s.threads {
		t := t
		go func() {
			<-t.resume
			defer func() {
				if r := recover(); r != nil {
					t.results = append(t.results, fmt.Sprintf("panic|%v|%s", r, panicSite(r)))
				}
				t.done = true
				s.events <- t.id
			}()
			for _, op := range t.ops {
				t.results = append(t.results, op())
			}
		}()
	}
	running := -1
	for step := 0; ; {
		en := s.enabledThreads()
		if len(en) == 0 {
			for _, t := range s.threads {
				if !t.done {
					s.deadlock = true
				}
			}
			break
		}
		// canonical order
		order := en
		runningEnabled := false
		for i, id := range en {
			if id == running {
				runningEnabled = true
				order = append([]int{id}, append(append([]int{}, en[:i]...), en[i+1:]...)...)
			}
		}
		choice := 0
		if len(order) > 1 {
			if step < len(s.prefix) {
				choice = s.prefix[step]
				if choice >= len(order) {
					s.diverged = fmt.Sprintf("choice %d out of range at scheduling point %d (%d enabled)", choice, step, len(order))
					choice = 0
				}
			}
			s.trace = append(s.trace, schedPoint{Enabled: order, Chosen: choice, RunningEnabled: runningEnabled})
			step++
		}
		running = order[choice]
		s.cur = running
		s.threads[running].resume <- struct{}{}
		<-s.events
	}
	s.cur = -1
	if s.deadlock {
		// release the stuck goroutines so that they do not leak: they will find the scheduler detached
		// (a deadlock is reported as a violation; the process is short-lived)
	}
}

func (s *coopSched) raceList() []string {
	var out []string
	for r := range s.races {
		out = append(out, r)
	}
	sort.Strings(out)
	return out
}

// ---------------------------------------------------------------------------------------------

type schedRun struct {
	trace    []schedPoint
	results  [][]string
	races    []string
	deadlock bool
	newHot   map[int]bool
	points   int
	diverged string
}

type schedExplorer struct {
	bound      int // preemption bound (<0: unbounded)
	maxExec    int64
	executions int64
	points     int64
	capped     bool
	maxPreempt int
	resultVecs map[string]bool
}

// explore enumerates every schedule within the bound. exec runs one execution under a choice
// prefix; visit is called for every execution (return false to stop).
func (e *schedExplorer) explore(exec func(prefix []int) schedRun, visit func(choices []int, r schedRun) bool) {
	e.resultVecs = map[string]bool{}
	stop := false
	var rec func(prefix []int)
	rec = func(prefix []int) {
		if stop {
			return
		}
		if e.maxExec > 0 && e.executions >= e.maxExec {
			e.capped = true
			return
		}
		r := exec(prefix)
		e.executions++
		e.points += int64(len(r.trace))
		choices := make([]int, len(r.trace))
		pre := make([]int, len(r.trace)+1) // preemptions before point i
		for i, p := range r.trace {
			choices[i] = p.Chosen
			pre[i+1] = pre[i]
			if p.RunningEnabled && p.Chosen != 0 {
				pre[i+1]++
			}
		}
		if pre[len(r.trace)] > e.maxPreempt {
			e.maxPreempt = pre[len(r.trace)]
		}
		e.resultVecs[fmt.Sprint(r.results)] = true
		if !visit(choices, r) {
			stop = true
			return
		}
		for i := len(prefix); i < len(r.trace); i++ {
			p := r.trace[i]
			for alt := 1; alt < len(p.Enabled); alt++ {
				cost := pre[i]
				if p.RunningEnabled {
					cost++
				}
				if e.bound >= 0 && cost > e.bound {
					continue
				}
				next := append(append([]int{}, choices[:i]...), alt)
				rec(next)
				if stop {
					return
				}
			}
		}
	}
	rec(nil)
}
