package main

import (
	"fmt"
	"sort"
	"strings"

	textwire "github.com/textwire/textwire/v2"
	rt "github.com/textwire/textwire/v2/zzverifrt"
)

// C14 — rendering is deterministic: model checking of the map-order environment.

type c14Case struct {
	ID    int `json:"id"`    // index into c14Cases()
	Bound int `json:"bound"` // deviation bound
}

type c14Prog struct {
	name  string
	src   string // string API source ("" for tree cases)
	data  func() map[string]any
	files map[string]string // tree cases
	page  string
}

type C14S struct {
	Zeta  int
	Alpha string
	Mid   []int
}

func c14Cases() []c14Prog {
	var out []c14Prog
	add := func(name, src string, data func() map[string]any) {
		out = append(out, c14Prog{name: name, src: src, data: data})
	}
	tree := func(name string, files map[string]string, page string, data func() map[string]any) {
		out = append(out, c14Prog{name: name, files: files, page: page, data: data})
	}
	objData := func() map[string]any {
		return map[string]any{"o": map[string]any{"b": 2, "a": 1, "c": []int{1, 2}}, "st": C14S{1, "x", []int{3}}, "m4": map[string]int{"w": 1, "x": 2, "y": 3, "z": 4}}
	}
	// top-level assignments without data: a later evaluation of the same source starts from the same (empty) scope
	leak := `@each(x in [1, 2]){{ x }},@end{{ y }}{{ x = "done" }}{{ y = {b: 1, a: 2} }}{{ x }}{{ y }}`
	add("assign-without-data", leak, nil)
	add("assign-with-empty-data", leak, func() map[string]any { return map[string]any{} })
	add("assign-with-other-data", leak, func() map[string]any { return map[string]any{"z": 1} })
	tree("assign-in-page-without-data", map[string]string{"index.tw": leak, "other.tw": `{{ x = 1.5 }}{{ y = "s" }}{{ x }}`}, "index", nil)
	tree("assign-in-page-with-empty-data", map[string]string{"index.tw": leak, "other.tw": `{{ x = 1.5 }}{{ y = "s" }}{{ x }}`}, "index", func() map[string]any { return map[string]any{} })
	// printing objects
	add("print-2-keys", `{{ {a: 1, b: 2} }}`, nil)
	add("print-3-keys", `{{ {c: 3, a: 1, b: 2} }}`, nil)
	add("print-4-keys", `{{ {d: 4, c: 3, a: 1, b: 2} }}`, nil)
	add("print-nested", `{{ {a: {x: 1, y: 2}, b: [1, {p: 1, q: 2}]} }}`, nil)
	add("print-shorthand", `{{ {o, st} }}`, objData)
	add("print-data-object", `{{ o }}|{{ st }}|{{ m4 }}`, objData)
	add("print-in-array", `{{ [{a: 1, b: 2}, {b: 1, a: 2}] }}`, nil)
	add("object-in-loop", `@each(x in [{a: 1, b: 2}, {c: 3, d: 4}]){{ x }};@end`, nil)
	add("object-concat-ternary", `{{ true ? {k: 1, j: 2} : {} }}`, nil)
	add("assign-then-print", `{{ v = {z: 1, y: 2, x: 3} }}{{ v }}{{ v.y }}`, nil)
	// adversarial key sets: keys that differ only in case, prefix keys, digits, non-ASCII
	caseData := func() map[string]any {
		return map[string]any{"m": map[string]any{"name": 1, "Name": 2, "NAME": 3}, "k": map[string]int{"10": 1, "9": 2, "é": 3, "z": 4, "Z": 5}}
	}
	add("print-case-keys", `{{ {id: 1, ID: 2} }}`, nil)
	add("print-case-keys-3", `{{ {url: 1, URL: 2, Url: 3} }}`, nil)
	add("dump-case-keys", `@dump({id: 1, ID: 2, iD: 3})`, nil)
	add("print-prefix-keys", `{{ {a: 1, ab: 2, abc: 3, b: 4} }}`, nil)
	add("print-data-case-keys", `{{ m }}|{{ k }}`, caseData)
	add("dump-data-case-keys", `@dump(m, k)`, caseData)
	add("case-keys-failing", `{{ {id: zz, ID: yy} }}`, nil)
	add("loops-after-failing-loops", `@each(i in [1, 2, 3])({{ i }})@end|@for(j = 0; j < 2; j++)[{{ j }}]@end`, nil)
	// dumping
	add("dump-literal", `@dump({a: 1, b: "s", c: [1, 2]})`, nil)
	add("dump-data", `@dump(o, st)`, objData)
	add("dump-nested", `@dump({a: {p: 1, q: 2}, b: {r: nil, s: true}})`, nil)
	add("dump-4", `@dump(m4)`, objData)
	// a large object (any shortening of what is shown must not depend on the order in which the entries are met)
	bigData := func() map[string]any {
		big := map[string]int{}
		for i := 0; i < 70; i++ {
			big[fmt.Sprintf("k%02d", (i*37)%70)] = i
		}
		return map[string]any{"big": big, "nest": map[string]any{"in": big}}
	}
	add("dump-70-keys", `@dump(big)`, bigData)
	add("print-70-keys", `{{ big }}|@dump(nest)`, bigData)
	// several failing entries at once
	add("literal-two-failing", `{{ {a: zz, b: yy} }}`, nil)
	add("literal-three-mixed", `{{ {a: 1, b: 1 / 0, c: "s" + 1} }}`, nil)
	add("literal-failing-lines", "{{ {a: zz,\n b: yy,\n c: xx} }}", nil)
	add("data-two-unsupported", `x`, func() map[string]any { return map[string]any{"a": make(chan int), "b": func() {}, "c": 1} })
	add("data-loop-and-unsupported", `x`, func() map[string]any { return map[string]any{"loop": 1, "b": complex(1, 1)} })
	add("data-nested-two-unsupported", `x`, func() map[string]any {
		return map[string]any{"m": map[string]any{"p": make(chan int), "q": func() {}}}
	})
	add("custom-func-object-arg", `{{ "s".zzcustom({a: 1, b: 2}) }}`, nil)
	// template trees
	tree("component-two-failing-args", map[string]string{"index.tw": `@component("c", {a: zz, b: yy})`, "c.tw": "c"}, "index", nil)
	tree("component-three-args-one-failing", map[string]string{"index.tw": `@component("c", {a: 1, b: yy, c: "s"})`, "c.tw": "{{ a }}{{ c }}"}, "index", nil)
	tree("component-args-printed", map[string]string{"index.tw": `@component("c", {a: 1, b: 2, c: 3})`, "c.tw": "{{ a }}{{ b }}{{ c }}"}, "index", nil)
	tree("component-arg-shadow-and-failing", map[string]string{"index.tw": `{{ b = "s" }}@component("c", {a: zz, b: 5, loop: 1})`, "c.tw": "c"}, "index", nil)
	tree("two-undefined-inserts", map[string]string{"index.tw": "@use(\"lay\")@insert(\"x\", \"1\")\n@insert(\"y\", \"2\")", "lay.tw": `<l>@reserve("a")</l>`}, "index", nil)
	tree("two-undefined-inserts-one-line", map[string]string{"index.tw": `@use("lay")@insert("footer", "1")@insert("sidebar", "2")@insert("b", "3")`, "lay.tw": `<l>@reserve("a")</l>`}, "index", nil)
	tree("three-undefined-inserts", map[string]string{"index.tw": "@use(\"lay\")@insert(\"x\", \"1\")\n@insert(\"y\", \"2\")\n@insert(\"a\", \"ok\")\n@insert(\"w\")W@end", "lay.tw": `<l>@reserve("a")</l>`}, "index", nil)
	tree("inserts-and-reserves", map[string]string{"index.tw": `@use("lay")@insert("x", "1")@insert("y", "2")@insert("z", "3")`, "lay.tw": `@reserve("z")@reserve("y")@reserve("x")`}, "index", nil)
	tree("two-duplicate-slots", map[string]string{"index.tw": `@component("c")@slot("p")1@end@slot("q")2@end@slot("p")3@end@slot("q")4@end@end`, "c.tw": `@slot("p")@slot("q")`}, "index", nil)
	tree("duplicate-named-and-default-slot", map[string]string{"index.tw": `@component("c")@slot 1@end@slot("q")2@end@slot 3@end@slot("q")4@end@end`, "c.tw": `@slot@slot("q")`}, "index", nil)
	tree("two-faulty-files", map[string]string{"a.tw": "{{ 1 + }}", "b.tw": "@if(x", "index.tw": "ok"}, "index", nil)
	tree("three-faulty-files", map[string]string{"a.tw": "{{ ) }}", "b.tw": "{{ ^ }}", "d/c.tw": "@each(x", "index.tw": "ok"}, "index", nil)
	tree("faulty-file-and-undefined-insert", map[string]string{"a.tw": "{{ 1 + }}", "index.tw": `@use("lay")@insert("nope", "1")`, "lay.tw": `@reserve("a")`}, "index", nil)
	tree("missing-component-and-faulty-file", map[string]string{"a.tw": `@component("nope")`, "b.tw": "{{ ) }}", "index.tw": "ok"}, "index", nil)
	tree("component-case-args", map[string]string{"index.tw": `@component("c", {x: zz, X: yy})`, "c.tw": "c"}, "index", nil)
	tree("case-insert-names", map[string]string{"index.tw": "@use(\"lay\")@insert(\"t\", \"1\")\n@insert(\"T\", \"2\")", "lay.tw": `<l>@reserve("a")</l>`}, "index", nil)
	tree("case-file-names", map[string]string{"a.tw": "{{ 1 + }}", "A.tw": "@if(x", "index.tw": "ok"}, "index", nil)
	// generated family: every 2- and 3-subset of an adversarial key alphabet, printed / dumped / with all entries failing,
	// as a literal, as a data map and as component arguments
	keyAlpha := []string{"a", "b", "B", "ab", "A", "z9", "é"}
	var subsets [][]string
	for i := 0; i < len(keyAlpha); i++ {
		for j := i + 1; j < len(keyAlpha); j++ {
			subsets = append(subsets, []string{keyAlpha[i], keyAlpha[j]})
			for k := j + 1; k < len(keyAlpha); k++ {
				subsets = append(subsets, []string{keyAlpha[j], keyAlpha[k], keyAlpha[i]})
			}
		}
	}
	for _, ks := range subsets {
		ks := ks
		ascii := true
		for _, k := range ks {
			ascii = ascii && k != "é"
		}
		name := strings.Join(ks, "_")
		if ascii {
			var okPairs, badPairs []string
			for i, k := range ks {
				okPairs = append(okPairs, fmt.Sprintf("%s: %d", k, i))
				badPairs = append(badPairs, fmt.Sprintf("%s: undefined%d", k, i))
			}
			add("gen-print-"+name, "{{ {"+strings.Join(okPairs, ", ")+"} }}", nil)
			add("gen-dump-"+name, "@dump({"+strings.Join(okPairs, ", ")+"})", nil)
			add("gen-failing-"+name, "{{ {"+strings.Join(badPairs, ", ")+"} }}", nil)
			tree("gen-component-"+name, map[string]string{"index.tw": `@component("c", {` + strings.Join(badPairs, ", ") + `})`, "c.tw": "c"}, "index", nil)
		}
		add("gen-data-"+name, "{{ d }}@dump(d)", func() map[string]any {
			m := map[string]any{}
			for i, k := range ks {
				m[k] = i
			}
			return map[string]any{"d": m}
		})
		add("gen-data-unsupported-"+name, "x", func() map[string]any {
			m := map[string]any{}
			for i, k := range ks {
				if i%2 == 0 {
					m[k] = make(chan int)
				} else {
					m[k] = func() {}
				}
			}
			return m
		})
	}
	// several files with link-time faults (no syntax error anywhere)
	tree("two-files-unknown-components", map[string]string{"a.tw": `@component("nope1")`, "b.tw": `@component("nope2")`, "index.tw": "ok"}, "index", nil)
	tree("two-files-undefined-inserts", map[string]string{"a.tw": `@use("lay")@insert("x", "1")`, "b.tw": `@use("lay")@insert("y", "2")`, "lay.tw": `@reserve("r")`, "index.tw": "ok"}, "index", nil)
	tree("three-files-mixed-link-faults", map[string]string{"a.tw": `@component("c")@slot("zz")s@end@end`, "b.tw": `@use("lay")@insert("y", "2")`, "d.tw": `@component("nope")`, "c.tw": `@slot("n")`, "lay.tw": `@reserve("r")`, "index.tw": "ok"}, "index", nil)
	tree("two-files-missing-layouts", map[string]string{"a.tw": `@use("nolay1")`, "b.tw": `@use("nolay2")`, "index.tw": "ok"}, "index", nil)
	tree("two-files-duplicate-slots", map[string]string{"a.tw": `@component("c")@slot("n")1@end@slot("n")2@end@end`, "b.tw": `@component("c")@slot 1@end@slot 2@end@end`, "c.tw": `@slot("n")@slot`, "index.tw": "ok"}, "index", nil)
	tree("many-pages-ok", map[string]string{"a.tw": "A", "b.tw": "B", "c.tw": "C", "index.tw": `@component("a")@component("b")@component("c")`}, "index", nil)
	tree("page-prints-objects", map[string]string{"index.tw": `@use("lay")@insert("a"){{ {k: 1, j: 2, i: 3} }}@end`, "lay.tw": `[@reserve("a")]`}, "index", objData)
	return out
}

// c14Execute runs the program once and returns a canonical outcome string.
func c14Execute(p c14Prog, t *Tree) string {
	var data map[string]any
	if p.data != nil {
		data = p.data()
	}
	if p.files == nil {
		o := guard(func() Outcome {
			rt.ResetRoot()
			if strings.Contains(p.src, "zzcustom") {
				textwire.RegisterStrFunc("zzcustom", func(s string, a ...any) string { return fmt.Sprint(len(a[0].(map[string]any))) })
			}
			out, err := textwire.EvaluateString(p.src, data)
			if err != nil {
				return parseErr(err)
			}
			return Outcome{Kind: KOut, Out: out}
		})
		return outcomeKey(o)
	}
	tpl, lo := t.load()
	if lo.Kind != KOut {
		return "load:" + outcomeKey(lo)
	}
	return outcomeKey(render(tpl, p.page, data))
}

// c14Check: a violation of C14 is a pair of executions of one input that differ, so a replay that shows
// such a pair once is a witness; causes outside the explorer's control (goroutines started by the library)
// do not show on every attempt, hence up to 10 attempts per replay.
func c14Check(cs c14Case) (ok bool, sig, expected, observed string) {
	for attempt := 0; attempt < 10; attempt++ {
		ok, sig, expected, observed = c14CheckOnce(cs)
		if !ok {
			return
		}
	}
	return
}

func c14CheckOnce(cs c14Case) (ok bool, sig, expected, observed string) {
	enterScratch()
	p := c14Cases()[cs.ID]
	var t *Tree
	if p.files != nil {
		tt := Tree{Dir: "t", Ext: ".tw", Files: p.files}
		tt.write()
		t = &tt
	}
	ex := &orderExplorer{bound: cs.Bound, repeat: 6}
	ex.explore(func() string { return c14Execute(p, t) })
	expected = "one outcome over all map iteration orders for case " + p.name
	if ex.diverged != "" {
		return false, "replay-diverged/" + p.name, expected, ex.diverged
	}
	for k := range ex.outcomes {
		if strings.HasPrefix(k, KPanic) || strings.HasPrefix(k, KHang) || strings.HasPrefix(k, "load:"+KPanic) {
			return false, "crash/" + p.name, expected, clip(k, 400)
		}
	}
	if len(ex.outcomes) > 1 {
		var keys []string
		for k := range ex.outcomes {
			keys = append(keys, k)
		}
		sort.Strings(keys)
		var parts []string
		for _, k := range keys[:2] {
			parts = append(parts, fmt.Sprintf("orders %v -> %s", ex.outcomes[k], clip(k, 260)))
		}
		return false, "order-dependent/" + p.name, expected, fmt.Sprintf("%d distinct outcomes: %s", len(ex.outcomes), strings.Join(parts, "  ||  "))
	}
	if sig, exp, obs, bad := c14Legs(nil, p, t); bad {
		return false, sig, exp, obs
	}
	return true, "", expected, fmt.Sprintf("1 outcome over %d executions (%d choice points max)", ex.executions, ex.maxPoints)
}

func c14Run(c *Ctx) {
	enterScratch()
	bound := 2
	if c.Thorough() {
		bound = 4
	}
	cases := c14Cases()
	for id, p := range cases {
		if !c.Mine() {
			continue
		}
		if c.Expired() {
			return
		}
		cs := c14Case{ID: id, Bound: bound}
		c.Trace(cs)
		var t *Tree
		if p.files != nil {
			tt := Tree{Dir: "t", Ext: ".tw", Files: p.files}
			tt.write()
			t = &tt
		}
		ex := &orderExplorer{bound: bound, repeat: 6}
		ex.explore(func() string { return c14Execute(p, t) })
		c.Evals(ex.executions)
		c.Count("states", ex.executions) // distinct (case, answer vector) executions
		c.Count("transitions", ex.points)
		c.Case(ex.maxPoints > 0)
		c.Count("cases_with_choice_points", b2i(ex.maxPoints > 0))
		c.Count("distinct_outcomes_total", int64(len(ex.outcomes)))
		c.Sample(map[string]any{"case": p.name, "src": p.src, "files": p.files, "executions": ex.executions, "max_choice_points": ex.maxPoints, "distinct_outcomes": len(ex.outcomes)})
		if ex.diverged != "" {
			c.Report("replay-diverged/"+p.name, int64(id), cs, "the same input and the same map iteration orders give the same execution for case "+p.name, ex.diverged, "")
		} else if len(ex.outcomes) != 1 {
			ok, sig, exp, obs := c14Check(cs)
			if !ok {
				c.Report(sig, int64(id), cs, exp, obs, "")
			}
		}
		if sig, exp, obs, bad := c14Legs(c, p, t); bad {
			c.Report(sig, int64(1000+id), cs, exp, obs, "found by a supplementary leg")
		}
	}
}

// c14Legs runs the two supplementary legs: (a) the same loaded templates rendered repeatedly in one
// process with other calls in between, (b) natural (Go-randomised) map order repeated in-process.
func c14Legs(c *Ctx, p c14Prog, t *Tree) (sig, expected, observed string, bad bool) {
	count := func(name string) {
		if c != nil {
			c.Count(name, 1)
		}
	}
	if t == nil {
		// string API: the same source evaluated repeatedly with other (failing) evaluations in between
		var data map[string]any
		if p.data != nil {
			data = p.data()
		}
		firstR := ""
		for r := 0; r < 3; r++ {
			o := c14Execute(p, nil)
			count("same-source_repetitions")
			if r == 0 {
				firstR = o
			} else if o != firstR {
				return "repetition-differs-after-other-calls/" + p.name, "identical outcome on every repetition within one process", "first: " + clip(firstR, 200) + "  ||  later: " + clip(o, 200), true
			}
			textwire.EvaluateString("@each(i in [1, 2])<{{ i }}>@if(loop.last){{ undefinedNoise }}@end@end", data)
			textwire.EvaluateString("@for(i = 0; i < 3; i++)[{{ i }}]{{ 1 / (1 - i) }}@end", nil)
			textwire.EvaluateString(`{{ x = "leak" }}{{ v = "leak" }}{{ o = 1.5 }}{{ i = "s" }}{{ y = 1 }}`, nil)
			textwire.EvaluateString(`{{ x = "leak" }}{{ v = "leak" }}{{ o = 1.5 }}{{ i = "s" }}{{ y = 1 }}`, map[string]any{})
		}
	}
	if t != nil {
		if tpl, lo := t.load(); lo.Kind == KOut {
			var data map[string]any
			if p.data != nil {
				data = p.data()
			}
			firstR, firstUnknown := "", ""
			for r := 0; r < 4; r++ {
				o := outcomeKey(render(tpl, p.page, data))
				count("same-template_repetitions")
				if r == 0 {
					firstR = o
				} else if o != firstR {
					return "repetition-differs-after-other-calls/" + p.name, "identical outcome on every repetition within one process", "first: " + clip(firstR, 200) + "  ||  later: " + clip(o, 200), true
				}
				// a name that was not loaded: the same answer every time as well
				un := outcomeKey(render(tpl, "no-such-template", nil))
				if r == 0 {
					firstUnknown = un
				} else if un != firstUnknown {
					return "repetition-differs-after-other-calls/unknown-name", "identical outcome on every repetition within one process", "first: " + clip(firstUnknown, 200) + "  ||  later: " + clip(un, 200), true
				}
				// other calls between the repetitions
				textwire.EvaluateString("noise {{ 1 }}", nil)
				textwire.EvaluateString("{{ undefinedNoise }}", nil)
				// renders that fail inside a loop after an earlier pass has produced output
				textwire.EvaluateString("@each(i in [1, 2])<{{ i }}>@if(loop.last){{ undefinedNoise }}@end@end", nil)
				textwire.EvaluateString("@for(i = 0; i < 3; i++)[{{ i }}]{{ 1 / (1 - i) }}@end", nil)
				respond(tpl, "no-such-template", nil)
				// the other files of the tree, and data-less evaluations that bind names the cases use
				for _, other := range sortedKeys(t.Files) {
					if n := strings.TrimSuffix(other, t.Ext); n != p.page {
						render(tpl, n, data)
					}
				}
				textwire.EvaluateString(`{{ x = "leak" }}{{ v = "leak" }}{{ o = 1.5 }}{{ i = "s" }}{{ y = 1 }}`, nil)
				textwire.EvaluateString(`{{ x = "leak" }}{{ v = "leak" }}{{ o = 1.5 }}{{ i = "s" }}{{ y = 1 }}`, map[string]any{})
			}
		}
	}
	first := ""
	for r := 0; r < 6; r++ {
		o := c14Execute(p, t)
		count("natural_order_repetitions")
		if r == 0 {
			first = o
		} else if o != first {
			return "order-dependent-natural/" + p.name, "identical outcome on every repetition", "two natural-order repetitions differ: " + clip(first, 200) + "  ||  " + clip(o, 200), true
		}
	}
	return "", "", "", false
}

func b2i(b bool) int64 {
	if b {
		return 1
	}
	return 0
}

func init() {
	p := &Property{
		ID:     "C14",
		Nondet: true,
		Level:  "model_checking",
		Rule:  "model checking of the map-order environment: every range over a map (and reflect MapKeys) in the module is a choice point whose answers are all permutations of the key-sorted entries (answer 0 = sorted); for each program/tree of a corpus biased to map use (objects with 2-4 keys printed, nested, dumped, from data and structs; object literals, data maps and component arguments with several failing entries; pages with several undefined inserts, duplicate slots, faulty files) every execution with at most k non-default answers is run (deviation-bounded DFS, replayed prefixes must hit the same sites or the run aborts) and all executions of one case must yield byte-identical output or identical (message, line, path). A supplementary leg repeats each case under Go's natural random order",
		Bounds: func(tier string) map[string]any {
			b := 2
			if tier == "thorough" {
				b = 4
			}
			return map[string]any{"cases": len(c14Cases()), "deviation_bound": b, "answers_per_choice_point": "n! for n<=5 entries (3 answers beyond)"}
		},
		Assume: []string{
			"only map iteration inside the textwire module is controlled; library code that iterates maps (none on these paths except fmt, which sorts) is not",
			"states = executions (case x answer vector); transitions = choice points taken; every execution runs on the implementation, so every trace is validated by construction",
		},
		Run: c14Run,
		PostMerge: func(tier string, cov map[string]any, rs []WorkerResult) {
			var st, tr int64
			for _, r := range rs {
				st += r.Counters["states"]
				tr += r.Counters["transitions"]
			}
			cov["states"] = st
			cov["transitions"] = tr
			cov["traces_validated_against_impl"] = st
		},
	}
	registerTyped(p, c14Check)
}
