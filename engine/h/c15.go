package main

import (
	"encoding/json"
	"fmt"
	"os"
	"os/exec"
	"reflect"
	"runtime"
	"sort"
	"strings"
	"sync"

	textwire "github.com/textwire/textwire/v2"
	rt "github.com/textwire/textwire/v2/zzverifrt"
)

// C15 — one loaded Template and the string API are safe for concurrent use.
// Schedule exploration with a cooperative scheduler + a free-running pass under the race detector.

type c15Case struct {
	Mode     string  `json:"mode"` // schedule | racefree
	Cfg      int     `json:"cfg"`
	Threads  [][]int `json:"threads,omitempty"`  // operation indices per thread
	Schedule []int   `json:"schedule,omitempty"` // choice prefix (default choice afterwards)
	Cold     bool    `json:"cold,omitempty"`     // cold start: nothing was loaded or evaluated before the goroutines start (string API only)
}

// c15ColdOps: the operations that need no loaded template.
var c15ColdOps = []int{5, 6, 7}

var c15OpNames = []string{"String(ok)", "String(runtime error)", "String(unknown)", "Response(ok)", "Response(error)", "EvaluateString(ok)", "EvaluateString(error)", "EvaluateFile", "String(sink)", "String(assign,nil)", "String(assign2,nil)", "String(failloop)", "String(loops)"}

// c15Op runs operation op with the data of thread tid and returns a canonical result.
func c15Op(tpl *textwire.Template, t Tree, op, tid int) string {
	data := func() map[string]any { d := c16Data(tid % 2); d["tid"] = tid; return d }
	safe := func(f func() string) (res string) {
		defer func() {
			if r := recover(); r != nil {
				res = fmt.Sprintf("panic|%v|%s", r, panicSite(r))
			}
		}()
		return f()
	}
	d := data()
	var res string
	switch op {
	case 0:
		res = safe(func() string {
			out, e := tpl.String("ok", d)
			if e != nil {
				return outcomeKey(failOutcome(e))
			}
			return "out|" + out
		})
	case 1:
		res = safe(func() string {
			out, e := tpl.String("fail", d)
			if e != nil {
				return outcomeKey(failOutcome(e))
			}
			return "out|" + out
		})
	case 2:
		res = safe(func() string {
			out, e := tpl.String("nope", d)
			if e != nil {
				return outcomeKey(failOutcome(e))
			}
			return "out|" + out
		})
	case 3, 4:
		name := "ok"
		if op == 4 {
			name = "fail2"
		}
		res = safe(func() string {
			rec := &recorder{}
			err := tpl.Response(rec, name, d)
			es := ""
			if err != nil {
				es = err.Error()
			}
			return "resp|" + es + "|" + string(rec.body)
		})
	case 5:
		res = safe(func() string {
			out, err := textwire.EvaluateString("s {{ name }} {{ tid }} @each(i in items){{ i }}@end", d)
			if err != nil {
				return "err|" + err.Error()
			}
			return "out|" + out
		})
	case 6:
		res = safe(func() string {
			out, err := textwire.EvaluateString("s\n{{ undefinedName }}", d)
			if err != nil {
				return "err|" + err.Error()
			}
			return "out|" + out
		})
	case 8:
		res = safe(func() string {
			out, e := tpl.String("sink", d)
			if e != nil {
				return outcomeKey(failOutcome(e))
			}
			// shuffle()/rand() may vary: the sink page only prints values derived from them that do not
			return "out|" + out
		})
	case 9, 10:
		name := "assign"
		if op == 10 {
			name = "assign2"
		}
		res = safe(func() string {
			out, e := tpl.String(name, nil)
			if e != nil {
				return outcomeKey(failOutcome(e))
			}
			return "out|" + out
		})
	case 11, 12:
		name := "failloop"
		if op == 12 {
			name = "loops"
		}
		res = safe(func() string {
			out, e := tpl.String(name, d)
			if e != nil {
				return outcomeKey(failOutcome(e))
			}
			return "out|" + out
		})
	case 7:
		res = safe(func() string {
			out, err := textwire.EvaluateFile(t.abs("plain.tw"), d)
			if err != nil {
				return "err|" + err.Error()
			}
			return "out|" + out
		})
	default:
		panic("harness bug: operation index")
	}
	if !reflect.DeepEqual(d, data()) {
		res += "|DATA-MODIFIED"
	}
	return res
}

type c15World struct {
	cfg      int
	tree     Tree
	baseline map[[2]int]string // (op, tid) -> run-alone result
	hot      map[int]bool
	syncVars map[int]bool
	varName  map[int]string
	baseVec  map[string]uint64
	// cold start (no load before the goroutines start): own baselines and write set, because lazily built
	// package state is then built by the operations themselves
	cold         bool
	baselineCold map[[2]int]string
	hotCold      map[int]bool
}

func (w *c15World) curHot() map[int]bool {
	if w.cold {
		return w.hotCold
	}
	return w.hot
}

func (w *c15World) base(op, tid int) string {
	if w.cold {
		return w.baselineCold[[2]int{op, tid}]
	}
	return w.baseline[[2]int{op, tid}]
}

func newC15World(cfg int) (*c15World, string) {
	w := &c15World{cfg: cfg, tree: c16Tree(cfg), baseline: map[[2]int]string{}, hot: map[int]bool{}, syncVars: map[int]bool{}, varName: map[int]string{},
		baselineCold: map[[2]int]string{}, hotCold: map[int]bool{}}
	w.tree.write()
	for _, vi := range rt.Vars {
		w.varName[vi.ID] = vi.Name
		tn := reflect.TypeOf(vi.Ptr).Elem().String()
		if strings.HasPrefix(tn, "vsync.") || strings.HasPrefix(tn, "vatomic.") || strings.HasPrefix(tn, "sync.") || strings.HasPrefix(tn, "atomic.") {
			w.syncVars[vi.ID] = true
		}
	}
	// run-alone baselines and write-set profiling
	for op := range c15OpNames {
		for tid := 0; tid < 3; tid++ {
			tpl, lo := w.fresh()
			if lo.Kind != KOut {
				return nil, "the fixed tree does not load: " + lo.String()
			}
			if op == 0 && tid == 0 {
				_, w.baseVec = stateVector(tpl, ".usesTemplates")
			}
			rt.AccessHook = func(id int, kind byte) {
				if kind != 'R' && !w.syncVars[id] {
					w.hot[id] = true
				}
			}
			w.baseline[[2]int{op, tid}] = c15Op(tpl, w.tree, op, tid)
			rt.AccessHook = nil
		}
	}
	for _, op := range c15ColdOps {
		for tid := 0; tid < 3; tid++ {
			rt.ResetAll()
			rt.AccessHook = func(id int, kind byte) {
				if kind != 'R' && !w.syncVars[id] {
					w.hotCold[id] = true
				}
			}
			w.baselineCold[[2]int{op, tid}] = c15Op(nil, w.tree, op, tid)
			rt.AccessHook = nil
		}
	}
	return w, ""
}

func (w *c15World) fresh() (*textwire.Template, Outcome) {
	rt.ResetAll()
	return w.tree.load()
}

// exec runs one scheduled execution.
func (w *c15World) exec(threads [][]int, prefix []int) (schedRun, map[string]uint64) {
	var tpl *textwire.Template
	if w.cold {
		rt.ResetAll()
	} else {
		var lo Outcome
		tpl, lo = w.fresh()
		if lo.Kind != KOut {
			return schedRun{diverged: "load failed: " + lo.String()}, nil
		}
	}
	ops := make([][]func() string, len(threads))
	for tid, seq := range threads {
		for _, op := range seq {
			tid, op := tid, op
			ops[tid] = append(ops[tid], func() string { return c15Op(tpl, w.tree, op, tid) })
		}
	}
	s := newCoopSched(ops, w.curHot(), w.syncVars, prefix, func(id int) string { return w.varName[id] })
	s.run()
	r := schedRun{trace: s.trace, races: s.raceList(), deadlock: s.deadlock, newHot: s.newHot, points: s.points, diverged: s.diverged}
	for _, t := range s.threads {
		r.results = append(r.results, t.results)
	}
	_, vec := stateVector(tpl, ".usesTemplates")
	return r, vec
}

// judge applies the oracles to one execution.
func (w *c15World) judge(threads [][]int, r schedRun, vec map[string]uint64) (ok bool, sig, expected, observed string) {
	desc := c15Describe(threads)
	if r.diverged != "" {
		return false, "replay-diverged", "a schedule replays deterministically", r.diverged
	}
	if r.deadlock {
		return false, "deadlock", "every goroutine finishes (" + desc + ")", "no enabled goroutine while some are unfinished"
	}
	for tid, seq := range threads {
		for i, op := range seq {
			want := w.base(op, tid)
			got := "<missing>"
			if i < len(r.results[tid]) {
				got = r.results[tid][i]
			}
			if got != want {
				kind := "wrong-result"
				if strings.HasPrefix(got, "panic|") {
					kind = "panic"
				}
				return false, kind + "/" + c15OpNames[op], fmt.Sprintf("%s returns its run-alone result %q (%s)", c15OpNames[op], clip(want, 200), desc), clip(got, 300)
			}
		}
	}
	if len(r.races) > 0 {
		return false, "race/" + r.races[0], "no two unordered accesses to a package-level variable with at least one definite write (" + desc + ")", strings.Join(r.races, "; ")
	}
	if w.cold {
		desc += " [cold start]" // lazily built package state legitimately differs from the loaded baseline: results and races decide
	} else if d := diffParts(w.baseVec, vec); len(d) > 0 {
		return false, "shared-state-modified/" + strings.Join(d, ","), "loaded ASTs, configuration and registry are unchanged after concurrent renders (" + desc + ")", "changed: " + strings.Join(d, ", ")
	}
	return true, "", "run-alone results, no race, shared state unchanged", "ok"
}

func c15Describe(threads [][]int) string {
	var parts []string
	for tid, seq := range threads {
		var n []string
		for _, op := range seq {
			n = append(n, c15OpNames[op])
		}
		parts = append(parts, fmt.Sprintf("G%d: %s", tid, strings.Join(n, " ; ")))
	}
	return strings.Join(parts, " || ")
}

func c15Check(cs c15Case) (bool, string, string, string) {
	enterScratch()
	if cs.Mode == "racefree" {
		return c15RaceFree(cs.Cfg)
	}
	w, err := newC15World(cs.Cfg)
	if err != "" {
		return false, "load-failed", "the fixed tree loads", err
	}
	w.cold = cs.Cold
	// replay twice: identical observations before a failure is believed
	r1, v1 := w.exec(cs.Threads, cs.Schedule)
	r2, _ := w.exec(cs.Threads, cs.Schedule)
	if fmt.Sprint(r1.results, r1.trace) != fmt.Sprint(r2.results, r2.trace) {
		return false, "replay-diverged", "the same schedule gives the same observations", fmt.Sprintf("%v vs %v", r1.results, r2.results)
	}
	return w.judge(cs.Threads, r1, v1)
}

// c15RaceFree runs the free-running pass in the -race build (separate binary).
func c15RaceFree(cfg int) (bool, string, string, string) {
	bin := os.Getenv("VERIF_RACE_BIN")
	expected := "no report of the race detector and no fatal concurrent-map error when the same operations run on real goroutines"
	if bin == "" {
		return true, "", expected, "race binary not available (skipped)"
	}
	cmd := exec.Command(bin, "racefree", fmt.Sprint(cfg))
	cmd.Env = append(os.Environ(), "GORACE=halt_on_error=0 exitcode=66", "VERIF_SHARD_DIR="+enterScratch()+"/race")
	out, err := cmd.CombinedOutput()
	text := string(out)
	if strings.Contains(text, "WARNING: DATA RACE") || strings.Contains(text, "fatal error: concurrent map") {
		loc := "unknown"
		lines := strings.Split(text, "\n")
		for i, l := range lines {
			if strings.Contains(l, "WARNING: DATA RACE") || strings.Contains(l, "fatal error: concurrent map") {
				for _, m := range lines[i+1:] {
					if strings.Contains(m, "textwire/v2") && strings.Contains(m, "()") {
						loc = strings.TrimSpace(strings.TrimPrefix(strings.TrimSpace(m), "github.com/textwire/textwire/v2"))
						break
					}
				}
				break
			}
		}
		return false, "race-detector/" + digitsRe.ReplaceAllString(loc, "N"), expected, clip(text, 1500)
	}
	if err != nil && !strings.Contains(text, "RACEFREE-DONE") {
		return false, "race-run-failed", expected, clip(text, 800)
	}
	return true, "", expected, "no race reported"
}

// c15RaceFreeMain is the body of the -race binary: real goroutines, several GOMAXPROCS values.
func c15RaceFreeMain(cfg int) {
	enterScratch()
	w, err := newC15World(cfg)
	if err != "" {
		fmt.Println("load failed:", err)
		os.Exit(3)
	}
	// cold phase: package state reset, nothing loaded, the string API called from several goroutines at once
	for rep := 0; rep < 40; rep++ {
		runtime.GOMAXPROCS([]int{16, 4, 2}[rep%3])
		rt.ResetAll()
		w.cold = true
		var wg sync.WaitGroup
		for g := 0; g < 4; g++ {
			wg.Add(1)
			go func(g int) {
				defer wg.Done()
				for k := 0; k < 2; k++ {
					op := c15ColdOps[(g+k+rep)%len(c15ColdOps)]
					if got, want := c15Op(nil, w.tree, op, g%3), w.baselineCold[[2]int{op, g % 3}]; got != want {
						fmt.Printf("WRONG-RESULT-FREE-RUNNING %s (cold start): %q instead of %q\n", c15OpNames[op], clip(got, 120), clip(want, 120))
					}
				}
			}(g)
		}
		wg.Wait()
		w.cold = false
	}
	for _, procs := range []int{1, 4, 16} {
		runtime.GOMAXPROCS(procs)
		for rep := 0; rep < 30; rep++ {
			tpl, lo := w.fresh()
			if lo.Kind != KOut {
				fmt.Println("load failed")
				os.Exit(3)
			}
			var wg sync.WaitGroup
			bad := make(chan string, 64)
			for g := 0; g < 6; g++ {
				wg.Add(1)
				go func(g int) {
					defer wg.Done()
					for k := 0; k < len(c15OpNames); k++ {
						op := (k + g + rep) % len(c15OpNames)
						if got, want := c15Op(tpl, w.tree, op, g%3), w.baseline[[2]int{op, g % 3}]; got != want {
							select {
							case bad <- fmt.Sprintf("%s: %q instead of %q", c15OpNames[op], clip(got, 120), clip(want, 120)):
							default:
							}
						}
						if (g+k)%3 == 0 {
							runtime.Gosched()
						}
					}
				}(g)
			}
			wg.Wait()
			close(bad)
			for b := range bad {
				fmt.Println("WRONG-RESULT-FREE-RUNNING", b)
			}
		}
	}
	fmt.Println("RACEFREE-DONE")
}

func c15Run(c *Ctx) {
	enterScratch()
	nthreads, maxOps, bound := 2, 2, -1
	if c.Thorough() {
		nthreads, maxOps, bound = 3, 2, 3
	}
	// per-thread operation sequences of length 1..maxOps
	var seqs [][]int
	nops := len(c15OpNames)
	for a := 0; a < nops; a++ {
		seqs = append(seqs, []int{a})
	}
	isStateful := func(op int) bool { return op == 4 || op == 5 || op == 6 || op == 7 || op == 9 || op == 11 }
	if maxOps >= 2 {
		for a := 0; a < nops; a++ {
			for b := 0; b < nops; b++ {
				// quick tier: two-operation sequences over the operations that touch shared or per-call state
				if !c.Thorough() && !(isStateful(a) && isStateful(b)) {
					continue
				}
				seqs = append(seqs, []int{a, b})
			}
		}
	}
	worlds := map[int]*c15World{}
	world := func(cfg int) *c15World {
		if w, ok := worlds[cfg]; ok {
			return w
		}
		w, err := newC15World(cfg)
		if err != "" {
			c.Report("load-failed", 0, c15Case{Cfg: cfg}, "the fixed tree loads", err, "")
			w = nil
		}
		worlds[cfg] = w
		return w
	}
	coldRun := false
	runScenario := func(cfg int, threads [][]int) bool {
		w := world(cfg)
		if w == nil {
			return true
		}
		w.cold = coldRun
		for attempt := 0; attempt < 4; attempt++ {
			b := bound
			if len(threads) == 2 {
				b = -1 // two goroutines: all interleavings
			}
			ex := &schedExplorer{bound: b, maxExec: 20000}
			reclose := false
			distinctRes := 0
			ex.explore(func(prefix []int) schedRun {
				r, vec := w.exec(threads, prefix)
				r.diverged = r.diverged
				// stash the vector in the run through a closure-side map keyed by executions (simple: judge immediately)
				if ok, sig, exp, obs := w.judge(threads, r, vec); !ok {
					choices := make([]int, len(r.trace))
					for i, p := range r.trace {
						choices[i] = p.Chosen
					}
					cs := c15Case{Mode: "schedule", Cfg: cfg, Threads: threads, Schedule: choices, Cold: coldRun}
					c.Report(sig, int64(len(threads))*1000000+int64(len(choices)), cs, exp, obs, "")
				}
				return r
			}, func(choices []int, r schedRun) bool {
				if len(r.newHot) > 0 {
					for id := range r.newHot {
						w.curHot()[id] = true
					}
					reclose = true
					return false
				}
				return !c.Expired()
			})
			distinctRes = len(ex.resultVecs)
			if reclose {
				c.Count("write_set_reclosed", 1)
				continue
			}
			c.Evals(ex.executions)
			c.Count("schedules", ex.executions)
			c.Count("scheduling_points", ex.points)
			if ex.capped {
				c.Note("a scenario hit the per-scenario execution cap of 20000 schedules")
				c.res.Exhaustive = false
			}
			c.Case(ex.executions > 1)
			if int64(ex.maxPreempt) > c.res.Counters["max_preemptions_seen"] {
				c.res.Counters["max_preemptions_seen"] = int64(ex.maxPreempt)
			}
			if distinctRes > 1 {
				c.Count("scenarios_with_several_result_vectors", 1)
			}
			if c.res.Cases%97 == 1 {
				c.Sample(map[string]any{"cfg": cfg, "scenario": c15Describe(threads), "schedules": ex.executions, "scheduling_points": ex.points})
			}
			break
		}
		return !c.Expired()
	}
	for cfg := 0; cfg < 2; cfg++ {
		cfgBits := cfg * 2 // cfg 0: no custom error page; cfg 1: custom error page configured (debug off)
		for i := 0; i < len(seqs); i++ {
			if !c.Mine() {
				continue
			}
			for j := i; j < len(seqs); j++ {
				if nthreads == 2 {
					if !runScenario(cfgBits, [][]int{seqs[i], seqs[j]}) {
						return
					}
					continue
				}
				// thorough: all 2-goroutine scenarios as in the quick tier …
				if !runScenario(cfgBits, [][]int{seqs[i], seqs[j]}) {
					return
				}
				for k := j; k < len(seqs); k++ {
					// … plus three goroutines: single operations (every multiset), and one goroutine with two
					// operations when all operations are among those that touch shared or per-call state
					long := 0
					stateful := true
					for _, sq := range [][]int{seqs[i], seqs[j], seqs[k]} {
						if len(sq) > 1 {
							long++
						}
						for _, op := range sq {
							stateful = stateful && (op == 4 || op == 5 || op == 6 || op == 7 || op == 9 || op == 11)
						}
					}
					if long > 1 || (long == 1 && !stateful) {
						continue
					}
					if !runScenario(cfgBits, [][]int{seqs[i], seqs[j], seqs[k]}) {
						return
					}
				}
			}
		}
	}
	// cold start: the first calls of the process are concurrent calls of the string API (nothing loaded before)
	coldRun = true
	var coldSeqs [][]int
	for _, a := range c15ColdOps {
		coldSeqs = append(coldSeqs, []int{a})
	}
	for _, a := range c15ColdOps {
		for _, b := range c15ColdOps {
			coldSeqs = append(coldSeqs, []int{a, b})
		}
	}
	for i := 0; i < len(coldSeqs); i++ {
		if !c.Mine() {
			continue
		}
		for j := i; j < len(coldSeqs); j++ {
			if !runScenario(0, [][]int{coldSeqs[i], coldSeqs[j]}) {
				return
			}
			c.Count("cold_start_scenarios", 1)
			if c.Thorough() && len(coldSeqs[i]) == 1 && len(coldSeqs[j]) == 1 {
				for k := 0; k < len(c15ColdOps); k++ {
					if !runScenario(0, [][]int{coldSeqs[i], coldSeqs[j], coldSeqs[k]}) {
						return
					}
				}
			}
		}
	}
	coldRun = false
	// free-running pass under the race detector (supplementary; covers what the instrumenter cannot classify)
	if c.Shard == 0 {
		for _, cfg := range []int{0, 2} {
			ok, sig, exp, obs := c15RaceFree(cfg)
			c.Count("race_detector_runs", 1)
			if !ok {
				c.Report(sig, 1, c15Case{Mode: "racefree", Cfg: cfg}, exp, obs, "")
			}
		}
	}
	var hot []string
	for _, w := range worlds {
		if w == nil {
			continue
		}
		for id := range w.hot {
			hot = append(hot, w.varName[id])
		}
	}
	sort.Strings(hot)
	if len(hot) > 0 {
		b, _ := json.Marshal(hot)
		c.Note("written package-level locations (scheduling points): " + string(b))
	} else {
		c.Note("written package-level locations: none besides synchronisation objects")
	}
}

func init() {
	p := &Property{
		ID:    "C15",
		Level: "model_checking",
		Rule:  "schedule exploration on the real code under a cooperative scheduler: 2 goroutines x 1-2 operations (all interleavings) / 3 goroutines with a preemption bound, operations from {String ok / run-time error / unknown, Response ok / error (built-in or custom error page), EvaluateString ok / error, EvaluateFile} on one loaded tree with a layout, a component in a loop and slots, each goroutine with its own data; scheduling points are the accesses (inserted by the instrumenter) to every package-level variable that some operation writes, every atomic operation and every mutex operation (sync / sync/atomic are replaced by scheduler-aware shims). Oracles on every schedule: each call returns its run-alone result; no two accesses to a package-level variable from different goroutines, one of them a definite write, unordered by happens-before (vector clocks over spawn, mutex and atomic edges); the loaded ASTs, configuration and registry are unchanged. Violating schedules are replayed twice before they are reported. Supplementary: the same operations on real goroutines in a -race build (GOMAXPROCS 1/4/16)",
		Bounds: func(tier string) map[string]any {
			if tier == "thorough" {
				return map[string]any{"goroutines": "2 (all interleavings) and 3 (single operations: every multiset; one goroutine with two operations over the six stateful operations)", "preemption_bound_3_goroutines": 3, "operations": len(c15OpNames), "load_configurations": 2}
			}
			return map[string]any{"goroutines": 2, "ops_per_goroutine": "1 (all 13 operations) or 2 (over the six operations that touch shared or per-call state)", "preemption_bound": "none (all interleavings)", "operations": len(c15OpNames), "load_configurations": 2}
		},
		Assume: []string{
			"sequentially consistent interleavings at the instrumented points; justified by DRF-SC once the race oracle holds (if it does not hold, that is the violation)",
			"interleavings inside library calls are atomic for the scheduler; the free-running -race pass is the backstop for those and for opaque (address-taken) accesses",
			"partial-order reduction: reads of locations that no operation writes commute and are not scheduling points; the written set is profiled per operation and re-closed when an interleaved run writes a new location",
		},
		Run: c15Run,
		PostMerge: func(tier string, cov map[string]any, rs []WorkerResult) {
			var st, tr int64
			for _, r := range rs {
				st += r.Counters["schedules"]
				tr += r.Counters["scheduling_points"]
			}
			var mp int64
			for _, r := range rs {
				if r.Counters["max_preemptions_seen"] > mp {
					mp = r.Counters["max_preemptions_seen"]
				}
			}
			if cm, ok := cov["counters"].(map[string]int64); ok {
				cm["max_preemptions_seen"] = mp
			}
			cov["states"] = st
			cov["transitions"] = tr
			cov["traces_validated_against_impl"] = st
			cov["explanation"] = "states = complete schedules executed on the implementation; transitions = scheduling decisions taken"
		},
	}
	registerTyped(p, c15Check)
}
