package main

import (
	"sort"
	"strings"
)

// C05 — text outside Textwire syntax is emitted byte for byte; escapes and comments work.

type c05Case struct {
	Lex    []int `json:"lex"`          // indices into c05Lexemes
	Form   int   `json:"form"`         // 0: T   1: T+P   2: P+T   3: P1+T+P2   4: W(T): T directly after a directive keyword, inside block P1 of c05Wrappers
	P1     int   `json:"p1,omitempty"` // piece index
	P2     int   `json:"p2,omitempty"`
	Struct bool  `json:"structural,omitempty"` // Lex indexes c05Structural instead
}

var c05Lexemes = []string{
	"a", " ", "\n", "\\", "{", "}", "{{", "}}", "-", "--", "{{--", "--}}", "@", "@if", "@en", "@end",
	"\r\n", "\\\\", "@i", "@else", "@elseif", "@each", "@slot", "@dum", "@dump", "@breakI", "(", ")", "é", "\xff", "@END", "@If", "@Else", "@EACH(", "i", "I", "f", "\x00",
}

var c05Structural = []string{"a", "\\", "{", "}", "{{", "}}", "-", "--", "{{--", "--}}", "@", "@if", "@en", "\n"}

var c05Keywords = []string{"@if", "@else", "@elseif", "@end", "@use", "@reserve", "@insert", "@for", "@each", "@continue",
	"@continueIf", "@break", "@breakIf", "@component", "@slot", "@dump"}

type c05Piece struct{ src, out string }

// c05Wrapper: the text T stands directly behind a directive (tail is that directive's keyword when it has no
// parentheses) and is closed by post. fixed != "": what the whole renders to whatever T is (T is never reached).
type c05Wrapper struct{ pre, tail, post, fixed string }

var c05Wrappers = []c05Wrapper{
	{"@if(false)N@else", "@else", "@end", ""},
	{"@if(true)", "", "@end", ""},
	{"@each(v in [1])", "", "@end", ""},
	{"@each(v in [1])A@break", "@break", "@end", "A"},
	{"@each(v in [1, 2])B@continue", "@continue", "@end", "BB"},
	{"@if(false)N@elseif(true)", "", "@else N@end", ""},
}

// c05Expected: the reference output of a case; defined=false when the case is outside the property's domain.
func c05Expected(cs c05Case) (src, out string, defined bool) {
	src, active, text := c05Build(cs)
	out, defined = c05Scan(src, active)
	if !defined || cs.Form != 4 {
		return src, out, defined
	}
	w := c05Wrappers[cs.P1]
	if strings.HasSuffix(text, "\\") {
		return src, "", false // the backslash would escape the closing directive: the block is then unterminated
	}
	if w.tail != "" {
		// the keyword must end where T starts: "@else" + "if" would be another directive
		for _, k := range c05Keywords {
			if len(k) > len(w.tail) && strings.HasPrefix(w.tail+text, k) {
				return src, "", false
			}
		}
	}
	if text != "" && (text[0] == '(' || text[0] == ' ' && strings.HasPrefix(strings.TrimLeft(text, " "), "(")) && w.tail != "" {
		return src, "", false // parentheses after a keyword without arguments: not pinned down
	}
	if w.fixed != "" {
		return src, w.fixed, true
	}
	return src, out, true
}

var c05Pieces = []c05Piece{{"{{ 1 }}", "1"}, {"@if(true)X@end", "X"}, {"{{-- c --}}", ""}}

func c05KeywordAt(s string, i int) bool {
	for _, k := range c05Keywords {
		if strings.HasPrefix(s[i:], k) {
			return true
		}
	}
	return false
}

// c05Scan is the reference byte scanner. active maps the offset of each known active piece to
// (its length, its output). defined=false: the string contains unescaped Textwire syntax at an
// unknown place, an unterminated or degenerate comment — outside this property's domain.
func c05Scan(s string, active map[int]c05Piece) (out string, defined bool) {
	var sb strings.Builder
	i := 0
	for i < len(s) {
		c := s[i]
		if c == '{' && strings.HasPrefix(s[i:], "{{") {
			if i > 0 && s[i-1] == '\\' {
				// escaped: the backslash (already copied) is removed, the braces are literal
				str := sb.String()
				sb.Reset()
				sb.WriteString(str[:len(str)-1])
				sb.WriteString("{{")
				i += 2
				continue
			}
			if p, ok := active[i]; ok {
				sb.WriteString(p.out)
				i += len(p.src)
				continue
			}
			if strings.HasPrefix(s[i:], "{{--") {
				if ov := strings.Index(s[i+2:], "--}}"); ov == 0 || ov == 1 {
					return "", false // {{--}} / {{---}}: opener and terminator overlap, not pinned down
				}
				end := strings.Index(s[i+4:], "--}}")
				if end < 0 {
					return "", false
				}
				i = i + 4 + end + 4
				continue
			}
			return "", false
		}
		if c == '@' && c05KeywordAt(s, i) {
			if i > 0 && s[i-1] == '\\' {
				str := sb.String()
				sb.Reset()
				sb.WriteString(str[:len(str)-1])
				sb.WriteByte('@')
				i++
				continue
			}
			if p, ok := active[i]; ok {
				sb.WriteString(p.out)
				i += len(p.src)
				continue
			}
			return "", false
		}
		sb.WriteByte(c)
		i++
	}
	return sb.String(), true
}

func c05Build(cs c05Case) (src string, active map[int]c05Piece, text string) {
	alpha := c05Lexemes
	if cs.Struct {
		alpha = c05Structural
	}
	var sb strings.Builder
	for _, ix := range cs.Lex {
		sb.WriteString(alpha[ix])
	}
	text = sb.String()
	active = map[int]c05Piece{}
	switch cs.Form {
	case 0:
		src = text
	case 1:
		active[len(text)] = c05Pieces[cs.P1]
		src = text + c05Pieces[cs.P1].src
	case 2:
		active[0] = c05Pieces[cs.P1]
		src = c05Pieces[cs.P1].src + text
	case 3:
		active[0] = c05Pieces[cs.P1]
		active[len(c05Pieces[cs.P1].src)+len(text)] = c05Pieces[cs.P2]
		src = c05Pieces[cs.P1].src + text + c05Pieces[cs.P2].src
	default:
		w := c05Wrappers[cs.P1]
		active[0] = c05Piece{w.pre, ""}
		active[len(w.pre)+len(text)] = c05Piece{w.post, ""}
		src = w.pre + text + w.post
	}
	return src, active, text
}

func c05Check(cs c05Case) (ok bool, sig, expected, observed string) {
	_, _, text := c05Build(cs)
	src, out, defined := c05Expected(cs)
	if !defined {
		return true, "", "undefined", "not run"
	}
	exp := Expect{Kind: EValue, Text: out}
	o := runString(src, nil)
	good, why := conforms(exp, o)
	if good {
		return true, "", exp.String(), o.String()
	}
	if o.Kind == KPanic || o.Kind == KHang {
		return false, o.Kind + "@" + o.Site, exp.String() + " for " + strconvQuote(src), o.String()
	}
	// feature: the special lexemes involved
	set := map[string]bool{}
	for _, sp := range []string{"\\", "{{--", "--}}", "}}", "{{", "@", "\r", "\xff"} {
		if strings.Contains(text, sp) {
			set[sp] = true
		}
	}
	var ks []string
	for k := range set {
		ks = append(ks, k)
	}
	sort.Strings(ks)
	form := []string{"T", "T+P", "P+T", "P+T+P", "W(T)"}[cs.Form]
	if cs.Form == 4 {
		form += ":" + c05Wrappers[cs.P1].pre
	}
	return false, why + "/" + form + "/" + strings.Join(ks, " "), exp.String() + " for " + strconvQuote(src), o.String()
}

func strconvQuote(s string) string {
	return strings.ReplaceAll(strings.ReplaceAll(strings.ReplaceAll(s, "\n", "\\n"), "\r", "\\r"), "\xff", "\\xff")
}

func c05Run(c *Ctx) {
	order := int64(0)
	do := func(cs c05Case, k int) bool {
		if c.Expired() {
			return false
		}
		_, _, text := c05Build(cs)
		src, out, defined := c05Expected(cs)
		if !defined {
			c.Count("outside_domain", 1)
			return true
		}
		order++
		c.Trace(cs)
		o := runString(src, nil)
		c.Evals(1)
		nontriv := strings.ContainsAny(text, "\\@{}-") || cs.Form != 0
		c.Case(nontriv)
		c.OutcomeClass(o.Kind)
		if order%997 == 1 {
			c.Sample(map[string]any{"src": src, "expected": out})
		}
		if good, _ := conforms(Expect{Kind: EValue, Text: out}, o); !good {
			_, sig, e, ob := c05Check(cs)
			c.Report(sig, int64(k)*100000000+int64(len(src))*100000+order%100000, cs, e, ob, "")
		}
		return true
	}
	forms := func(lex []int, structural bool, k int, splices bool) bool {
		if !do(c05Case{Lex: lex, Struct: structural}, k) {
			return false
		}
		if !splices {
			return true
		}
		for wi := range c05Wrappers {
			if !do(c05Case{Lex: lex, Struct: structural, Form: 4, P1: wi}, k) {
				return false
			}
		}
		for p := range c05Pieces {
			if !do(c05Case{Lex: lex, Struct: structural, Form: 1, P1: p}, k) || !do(c05Case{Lex: lex, Struct: structural, Form: 2, P1: p}, k) {
				return false
			}
			for q := range c05Pieces {
				if !do(c05Case{Lex: lex, Struct: structural, Form: 3, P1: p, P2: q}, k) {
					return false
				}
			}
		}
		return true
	}
	fullLen, structLen, spliceLen := 4, 6, 3
	if c.Thorough() {
		fullLen, structLen, spliceLen = 5, 7, 4
	}
	for k := 0; k <= fullLen; k++ {
		if !seqEnum(c, len(c05Lexemes), k, func(idx []int) bool {
			return forms(append([]int{}, idx...), false, k, k <= spliceLen)
		}) {
			return
		}
	}
	for k := fullLen + 1; k <= structLen; k++ {
		if !seqEnum(c, len(c05Structural), k, func(idx []int) bool {
			return forms(append([]int{}, idx...), true, k, false)
		}) {
			return
		}
	}
}

func init() {
	p := &Property{
		ID:    "C05",
		Level: "exploration",
		Rule: "bounded-exhaustive: every string of <=k lexemes over an adversarial alphabet (backslash, single and double braces, dashes, comment opener/terminator, @, directive keywords and their proper prefixes, CR LF, UTF-8 and an invalid byte), restricted to strings whose reference scan is defined (no unescaped {{ or @keyword, no unterminated comment), alone and spliced before / after / between fixed active pieces ({{ 1 }}, @if(true)X@end, a comment); longer strings over the 14 structural lexemes. " +
			"The reference is a byte scanner written from the statement. Non-trivial: the text contains one of \\ @ { } - or is spliced around an active piece",
		Bounds: func(tier string) map[string]any {
			if tier == "thorough" {
				return map[string]any{"lexemes": len(c05Lexemes), "len_full": 5, "len_structural": 7, "len_spliced": 4, "structural_lexemes": len(c05Structural)}
			}
			return map[string]any{"lexemes": len(c05Lexemes), "len_full": 4, "len_structural": 6, "len_spliced": 3, "structural_lexemes": len(c05Structural)}
		},
		Assume: []string{"the degenerate comment {{--}} is outside the defined domain"},
		Run:    c05Run,
	}
	registerTyped(p, c05Check)
}
