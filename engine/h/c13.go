package main

import (
	"fmt"
	"strings"

	textwire "github.com/textwire/textwire/v2"
)

// C13 — errors name the line (and file) of the offending construct.

type c13Case struct {
	Prefix []int `json:"prefix"` // indices into c13PrefixItems
	Fault  int   `json:"fault"`
	Wrap   int   `json:"wrap"`  // 0 top level, 1 inside an @if body, 2 inside an @each body, 3 inside the @else branch
	Pct    bool  `json:"pct,omitempty"` // the template directory's name contains a per cent sign followed by a letter
	Where  int   `json:"where"` // 0 string API, 1 page file, 2 layout file, 3 component file, 4 page that uses a layout (fault in the page's insert)
}

var c13PrefixItems = []string{
	"t",
	"a\nb",
	"\n\n",
	"x\r\ny",
	"{{ \"p\nq\" }}",
	"{{-- c\nd --}}",
	"{{\n1\n}}",
	"@if(\ntrue\n)Y@end",
	"@if(true)\nY\n@end",
	"\\{{ x }}\n",
	"@each(w in [1,\n2])z\n@end",
	"{{ 'r\n\ns' }}\n",
	"{{ \"p\\\nq\" }}",   // a backslash directly before the line feed inside a string
	"{{ \"a\\\"\nb\" }}", // an escaped quote, then a line feed
	// earlier, harmless mentions of what the faults are made of: in a branch that is not taken, and as a loop variable
	"@if(false){{ zz }}{{ 1 + \"a\" }}{{ \"s\".zz() }}{{ {a: 1}.zz }}{{ 1 / 0 }}{{ 5 % 0 }}@each(v in 5)x@end@end\n",
	"@each(zz in [1]){{ zz }}\n@end",
}

type c13Fault struct {
	name  string
	src   string
	extra int    // lines between the start of src and the line the error must name
	load  bool   // detected while loading (parse error)
	tree  string // "", "insert", "component": only in tree mode
}

var c13Faults = []c13Fault{
	{"unknown-identifier", "{{ zz }}", 0, false, ""},
	{"type-mismatch", `{{ 1 + "a" }}`, 0, false, ""},
	{"unknown-function", `{{ "s".zz() }}`, 0, false, ""},
	{"unknown-property", `{{ {a: 1}.zz }}`, 0, false, ""},
	{"division-by-zero", "{{ 1 / 0 }}", 0, false, ""},
	{"illegal-character", "{{ ^ }}", 0, true, ""},
	{"illegal-character-after-newline", "{{ 1 +\n^ }}", 1, true, ""},
	{"unexpected-token", "{{ ) }}", 0, true, ""},
	{"missing-operand", "{{ 1 + }}", 0, true, ""},
	{"undefined-insert", `@insert("zz", "v")`, 0, true, "insert"},
	{"unknown-component", `@component("nope")`, 0, true, "component"},
	{"each-over-non-array", "@each(v in 5)x@end", 0, false, ""},
	{"modulo-by-zero", "{{ 5 % 0 }}", 0, false, ""},
	// a binary operation spread over two lines: operator and right operand stand on the second one
	{"division-by-zero-second-line", "{{ 1\n/ 0 }}", 1, false, ""},
	{"type-mismatch-second-line", "{{ 1\n+ \"a\" }}", 1, false, ""},
	{"modulo-by-zero-second-line", "{{ (2 +\n3)\n% 0 }}", 2, false, ""},
	// the offending token is itself a string that spans lines: the error names the line on which it ends
	{"unknown-property-multi-line-string", "{{ {a: 1}[\"x\ny\"] }}", 1, false, ""},
	{"unexpected-multi-line-string", "{{ 1 \"p\n\nq\" }}", 2, true, ""},
	// a call whose argument list spans lines: the unknown name (and the call that rejects its argument) stands on the first one
	{"unknown-function-multi-line-arguments", "{{ \"s\".zz(1,\n2\n) }}", 0, false, ""},
	{"mistyped-argument-multi-line-arguments", "{{ \"s\".repeat(\"x\"\n\n) }}", 0, false, ""},
	// faults of a slot passed to a component (the component file comp9 has several lines of its own)
	{"undefined-slot", `@component("comp9")@slot("zz")x@end@end`, 0, true, "slot"},
	{"slot-passed-twice", `@component("comp9")@slot("n")x@end@slot("n")y@end@end`, 0, true, "slot"},
}

func c13Build(cs c13Case) (src string, line int) {
	var sb strings.Builder
	for _, ix := range cs.Prefix {
		sb.WriteString(c13PrefixItems[ix])
	}
	f := c13Faults[cs.Fault]
	switch cs.Wrap {
	case 1:
		sb.WriteString("@if(true)\n in ")
	case 2:
		sb.WriteString("@each(u in [1])\n\n in ")
	case 3:
		sb.WriteString("@if(false)\nno\n@else\n in ")
	}
	line = 1 + strings.Count(sb.String(), "\n") + f.extra
	sb.WriteString(f.src)
	sb.WriteString(" tail\nmore\n")
	if cs.Wrap != 0 {
		sb.WriteString("@end\nafter\n")
	}
	return sb.String(), line
}

func c13Check(cs c13Case) (ok bool, sig, expected, observed string) {
	src, line := c13Build(cs)
	f := c13Faults[cs.Fault]
	var o Outcome
	wantPath := ""
	switch cs.Where {
	case 0:
		o = runString(src, nil)
	default:
		t := Tree{Dir: "t", Ext: ".tw", Files: map[string]string{"other.tw": "other"}}
		if cs.Pct {
			t.Dir = "20%discount/50%s"
		}
		faultFile := "index.tw"
		switch cs.Where {
		case 1:
			t.Files["index.tw"] = src
			wantPath = t.abs("index.tw")
			if f.tree == "slot" {
				t.Files["comp9.tw"] = "1\n2\n3\n4\n5\n6\n7\n8\n<c>@slot(\"n\")</c>"
			}
			if f.tree == "insert" {
				// an insert needs a layout: the page uses one (on its last line, so the fault's line is unchanged)
				t.Files["index.tw"] = src + `@use("lay")`
				t.Files["lay.tw"] = `<l>@reserve("a")</l>`
			}
		case 2:
			t.Files["lay.tw"] = src + `@reserve("a")`
			t.Files["index.tw"] = `@use("lay")@insert("a")A@end`
			faultFile = "lay.tw"
			if f.load {
				wantPath = t.abs("lay.tw")
			}
		case 3:
			t.Files["comp.tw"] = src
			t.Files["index.tw"] = `<p>@component("comp")</p>`
			faultFile = "comp.tw"
			if f.load {
				wantPath = t.abs("comp.tw")
			}
		case 4:
			t.Files["lay.tw"] = "<l>\n\n@reserve(\"a\")</l>"
			t.Files["index.tw"] = `@use("lay")` + "\n@insert(\"a\")\n" + src + "@end"
			line += 2
			wantPath = t.abs("index.tw")
		case 6:
			// the fault sits in a slot body that the page passes to a component
			t.Files["comp.tw"] = "<c>\n\n\n@slot</c>"
			t.Files["index.tw"] = src[:strings.LastIndex(src, f.src)] + `@component("comp")@slot ` + f.src + "@end@end\ntail"
			wantPath = t.abs("index.tw")
		case 5:
			// the fault is the expression argument of an insert of a page that uses a layout
			expr := strings.TrimSuffix(strings.TrimPrefix(f.src, "{{ "), " }}")
			pre := src[:strings.LastIndex(src, f.src)]
			t.Files["lay.tw"] = "<l>\n@reserve(\"a\")\n@reserve(\"b\")</l>"
			t.Files["index.tw"] = `@use("lay")` + "\n@insert(\"b\")B@end" + pre + `@insert("a", ` + expr + ")\ntail"
			line = 2 + strings.Count(pre, "\n")
			wantPath = t.abs("index.tw")
		}
		_ = faultFile
		t.write()
		tpl, lo := t.load()
		if lo.Kind != KOut {
			o = lo
		} else {
			// other entry points used in between must not change what the error names: another directory
			// with files of the same names is loaded, a string and a file are evaluated
			decoy := Tree{Dir: "t0", Ext: ".html", Files: map[string]string{"index.html": "decoy", "lay.html": `<d>@reserve("a")</d>`, "comp.html": "decoy", "other.html": "decoy"}}
			decoy.writeKeep()
			decoy.loadKeep()
			textwire.EvaluateString("between {{ 1 }}", nil)
			textwire.EvaluateFile(t.abs("other.tw"), nil)
			o = render(tpl, "index", nil)
		}
	}
	expected = fmt.Sprintf("an error with line %d", line)
	if wantPath != "" {
		expected += " and path " + wantPath
	}
	expected += " for " + f.name + " in " + strconvQuote(src)
	where := []string{"string", "page", "layout", "component", "page-with-layout", "insert-argument", "slot-body"}[cs.Where]
	if o.Kind == KPanic || o.Kind == KHang {
		return false, o.Kind + "@" + o.Site, expected, o.String()
	}
	if o.Kind != KErr {
		return false, "fault-not-reported/" + f.name + "/" + where, expected, o.String()
	}
	if o.Line != line {
		// which kind of multi-line token precedes the fault
		feat := "none"
		for i := len(cs.Prefix) - 1; i >= 0; i-- {
			if strings.Contains(c13PrefixItems[cs.Prefix[i]], "\n") {
				feat = fmt.Sprintf("after-item%d", cs.Prefix[i])
				break
			}
		}
		return false, fmt.Sprintf("wrong-line/%s/%s", f.name, feat), expected, o.String()
	}
	if wantPath != "" && o.Path != wantPath {
		return false, "wrong-path/" + f.name + "/" + where, expected, o.String()
	}
	return true, "", expected, o.String()
}

func c13Run(c *Ctx) {
	enterScratch()
	order := int64(0)
	maxPrefix := 3
	if c.Thorough() {
		maxPrefix = 4
	}
	for k := 0; k <= maxPrefix; k++ {
		if !seqEnum(c, len(c13PrefixItems), k, func(idx []int) bool {
			if c.Expired() {
				return false
			}
			pre := append([]int{}, idx...)
			for fi, f := range c13Faults {
				for wrap := 0; wrap < 4; wrap++ {
					for where := 0; where < 7; where++ {
						if where == 6 && (wrap != 0 || f.load || f.tree != "" || f.extra != 0) {
							continue
						}
						if where == 5 && (wrap != 0 || f.load || !strings.HasPrefix(f.src, "{{ ") || f.extra != 0) {
							continue
						}
						if f.tree != "" && where != 1 && !(f.tree == "component" && where == 2) {
							continue // (an unknown component is also written into a layout file: the error names that file)
						}
						if (f.tree == "insert" || f.tree == "slot") && wrap != 0 {
							continue
						}
						if where == 4 && (f.load || wrap != 0) && k > 1 {
							continue
						}
						if where >= 2 && k == maxPrefix && !c.Thorough() && (fi+wrap)%2 == 1 {
							continue
						}
						for _, pct := range []bool{false, true} {
							if pct && (where == 0 || k > 1) {
								continue // per cent signs in the directory name: file cases with at most one prefix item
							}
							cs := c13Case{Prefix: pre, Fault: fi, Wrap: wrap, Where: where, Pct: pct}
							order++
							c.Trace(cs)
							ok, sig, exp, obs := c13Check(cs)
							c.Evals(1)
							src, _ := c13Build(cs)
							c.Case(strings.Count(src[:strings.LastIndex(src, f.src)], "\n") > 0)
							if order%997 == 1 {
								c.Sample(map[string]any{"case": cs, "expected": clip(exp, 300), "observed": clip(obs, 200)})
							}
							if !ok {
								c.Report(sig, int64(k)*100000000+order%100000000, cs, exp, obs, "")
							}
						}
					}
				}
			}
			return true
		}) {
			return
		}
	}
}

func init() {
	p := &Property{
		ID:    "C13",
		Level: "exploration",
		Rule: "bounded-exhaustive: every prefix that is a sequence of <=k items from 12 multi-line token kinds (text with LF / CRLF, strings containing newlines, a two-line comment, {{ and }} on separate lines, a directive header broken across lines, a multi-line @if and @each, an escaped brace) followed by one fault written on a single line (13 kinds: unknown identifier, type mismatch, unknown function/property, division/modulo by zero, illegal character (also right after a newline), unexpected token, missing operand, @each over a non-array, undefined insert, unknown component), at top level / inside @if / @each / @else bodies, through the string API, as a page file, inside a layout, inside a component, and inside an insert of a page that uses a layout; the file cases with at most one prefix item also in a template directory whose name contains per cent signs. " +
			"The expected line is 1 + the number of newlines before the fault in its own file (known by construction); the path is compared for load-time faults and faults in the page itself. Non-trivial: at least one newline precedes the fault",
		Bounds: func(tier string) map[string]any {
			if tier == "thorough" {
				return map[string]any{"prefix_items": 4, "item_kinds": len(c13PrefixItems), "faults": len(c13Faults)}
			}
			return map[string]any{"prefix_items": 3, "item_kinds": len(c13PrefixItems), "faults": len(c13Faults)}
		},
		Assume: []string{"for a run-time fault inside a layout or component file only the line is compared (which path is reported there is not stated)"},
		Run:    c13Run,
	}
	registerTyped(p, c13Check)
}
