package main

import (
	"html"
	"fmt"
	"math"
	"reflect"
	"sort"
	"strings"
	"unicode/utf8"

	textwire "github.com/textwire/textwire/v2"
	rt "github.com/textwire/textwire/v2/zzverifrt"
)

// C11 — built-in functions meet their contracts, are pure and keep UTF-8 valid.

type c11Case struct {
	Mode  string `json:"mode"`            // call | pure | precedence | site | same-value | held
	Recv2 Val    `json:"recv2,omitempty"` // site: the second receiver reaching the same call site
	Recv  Val    `json:"recv"`
	Fn    string `json:"fn"`
	Args  []Val  `json:"args,omitempty"`
	AsVar bool   `json:"as_var,omitempty"`
	Fn2   string `json:"fn2,omitempty"` // pure: second call on the same receiver / on the first result
	Args2 []Val  `json:"args2,omitempty"`
	Chain bool   `json:"chain,omitempty"` // pure: the second call is made on the first call's result
	Wrap  bool   `json:"wrap,omitempty"`  // call: every argument a is written true.then(a, 0), a nested call with arguments of its own
	ExprA string `json:"expr_a,omitempty"` // same-value: two expressions for one value (the first of the family is its literal form)
	ExprB string `json:"expr_b,omitempty"`
	Nest  bool   `json:"nest,omitempty"` // same-value: compared one level deeper ([[A]].contains([B]))
}

// c11Families: different ways to arrive at the same value; contains() is structural equality, so it must not
// matter which of them built the element and which the argument.
var c11Families = [][]string{
	{"[]", "[1].slice(1)", "[1].slice(0, 0)", "[].reverse()", "[].shuffle()", "[].append()", "[].prepend()", "[].slice(0)", "[1, 2].slice(5)"},
	{"[1]", "[1, 2].slice(0, 1)", "[].append(1)", "[].prepend(1)", "[1].reverse()", "[2, 1].slice(1)", "[1].shuffle()"},
	{`"ab"`, `"a" + "b"`, `"ba".reverse()`, `"AB".lower()`, `" ab ".trim()`, `"ab".str()`},
	{"2", "1 + 1", `"ab".len()`, "2.5.int()", "(-2).abs()"},
	{"2.0", "1.0 + 1.0", "2.float()", "4.0 / 2.0"},
	{"{}", "{a: {}}.a"},
	{"nil", "true.then(nil)", "false.then(1)"},
}

var c11MaxArgs = map[string]int{"len": 0, "split": 1, "raw": 0, "trim": 1, "trimLeft": 1, "trimRight": 1, "upper": 0, "lower": 0, "capitalize": 0, "reverse": 0,
	"contains": 1, "truncate": 2, "decimal": 2, "at": 1, "first": 0, "last": 0, "repeat": 1, "join": 1, "rand": 0, "shuffle": 0, "slice": 2, "append": 99, "prepend": 99,
	"float": 0, "abs": 0, "str": 0, "int": 0, "ceil": 0, "floor": 0, "round": 0, "binary": 0, "then": 2}

func c11Ref(fn string, recv Val, args []Val) refOut {
	if m, ok := c11MaxArgs[fn]; ok && len(args) > m {
		if fn == "decimal" {
			return refBuiltin(fn, recv, args)
		}
		return rUnspec() // surplus arguments: not stated
	}
	return refBuiltin(fn, recv, args)
}

// c11NoSuchFunc: the name is not a built-in of this receiver type.
func c11NoSuchFunc(fn string, recv Val) bool {
	for _, f := range c11Funcs[recv.K][:len(c11Funcs[recv.K])-2] {
		if f == fn {
			return false
		}
	}
	return true
}

// c11EscapeLiteral: what the interpreter turns the text of a string literal into when it evaluates it.
func c11EscapeLiteral(s string) string {
	e := html.EscapeString(s)
	e = strings.ReplaceAll(e, "&#34;", `"`)
	return strings.ReplaceAll(e, "&#39;", "'")
}

func litArgs(args []Val) string {
	parts := make([]string, len(args))
	for i, a := range args {
		parts[i] = a.Lit()
	}
	return strings.Join(parts, ", ")
}

// wrappedArgs writes every argument as the result of a nested call that takes arguments itself.
func wrappedArgs(args []Val) string {
	parts := make([]string, len(args))
	for i, a := range args {
		parts[i] = "true.then(" + a.Lit() + ", 0)"
	}
	return strings.Join(parts, ", ")
}

func c11Check(cs c11Case) (ok bool, sig, expected, observed string) {
	recvSrc := cs.Recv.Lit()
	data := map[string]Val{}
	if cs.AsVar {
		data["x"] = cs.Recv
		recvSrc = "x"
	}
	native := dataMap(data)
	before := dataMap(data)
	inputsValid := validUTF8Val(cs.Recv)
	for _, a := range cs.Args {
		inputsValid = inputsValid && validUTF8Val(a)
	}
	switch cs.Mode {
	case "call":
		ref := c11Ref(cs.Fn, cs.Recv, cs.Args)
		wantArr := len(ref.alts) > 0 && ref.alts[0].K == VArr && !ref.member
		argSrc := litArgs(cs.Args)
		if cs.Wrap {
			argSrc = wrappedArgs(cs.Args)
		}
		src := "{{ r = " + recvSrc + "." + cs.Fn + "(" + argSrc + ") }}[{{ r }}]"
		// the receiver variable is read again after the call: it still holds what it held
		if pr, okp := cs.Recv.Print(); cs.AsVar && okp && !cs.Wrap {
			o2 := runString("{{ r = x."+cs.Fn+"("+argSrc+") }}{{ x }}", dataMap(data))
			if o2.Kind == KOut && o2.Out != pr {
				return false, "receiver-changed-by-the-call/" + cs.Recv.K + "." + cs.Fn, "the receiver variable prints " + strconvQuote(pr) + " after {{ r = x." + cs.Fn + "(" + argSrc + ") }}", o2.String()
			}
		}
		if cs.Wrap {
			src = "{{ q = true.then(1, 2) }}" + src // an earlier call with arguments in the same evaluation
		}
		if wantArr {
			src += "|{{ r.len() }}"
		}
		o := runString(src, native)
		expected = fmt.Sprintf("%s for %s", c11Describe(ref), strconvQuote(src))
		bad := func(why string) (bool, string, string, string) {
			recvKind := cs.Recv.K
			return false, why + "/" + recvKind + "." + cs.Fn, expected, o.String()
		}
		if o.Kind == KPanic || o.Kind == KHang {
			return false, o.Kind + "@" + o.Site, expected, o.String()
		}
		if !cs.AsVar && cs.Recv.K == VStr && strings.ContainsAny(cs.Recv.S, "&<>") && !cs.Wrap {
			// a literal receiver with HTML-special characters: the function must see the text as written. When the
			// result is exactly what the function gives for the HTML-escaped text, the failure is the known one
			// (literals are escaped when they are evaluated, not when they are printed), under one signature.
			esc := cs
			esc.AsVar = true
			esc.Recv = vStr(c11EscapeLiteral(cs.Recv.S))
			okRaw, sigRaw, _, _ := c11Check(c11Case{Mode: "call", Recv: cs.Recv, Fn: cs.Fn, Args: cs.Args, AsVar: true})
			srcEsc := "{{ r = x." + cs.Fn + "(" + argSrc + ") }}[{{ r }}]"
			if wantArr {
				srcEsc += "|{{ r.len() }}"
			}
			oEsc := runString(srcEsc, dataMap(map[string]Val{"x": esc.Recv}))
			oRaw := runString(srcEsc, dataMap(map[string]Val{"x": cs.Recv}))
			_ = sigRaw
			if okRaw && oEsc.String() == o.String() && oRaw.String() != o.String() && !ref.perm && !ref.member {
				return false, "literal-receiver-escaped-before-the-call", "the function sees the literal as written (as it does for the same text in a variable: " + oRaw.String() + ") for " + strconvQuote(src), o.String()
			}
		}
		if o.Kind == KOut && inputsValid && !utf8.ValidString(o.Out) {
			return bad("invalid-utf8")
		}
		if cs.AsVar && !reflect.DeepEqual(native, before) {
			return bad("receiver-data-modified")
		}
		if ref.unspec {
			return true, "", expected, o.String()
		}
		if o.Kind == KErr {
			if ref.errOK {
				return true, "", expected, o.String()
			}
			return bad("error-instead-of-value")
		}
		if len(ref.alts) == 0 {
			return bad("value-instead-of-error")
		}
		if ref.perm || ref.member {
			return c11CheckRandom(cs, ref, o, expected, bad)
		}
		for _, v := range ref.alts {
			p, pok := v.Print()
			if !pok {
				return true, "", expected, o.String()
			}
			want := "[" + p + "]"
			if v.K == VArr {
				want += fmt.Sprintf("|%d", len(v.A))
			} else if wantArr {
				continue
			}
			if o.Out == want {
				return true, "", expected, o.String()
			}
		}
		return bad("wrong-value")
	case "pure":
		// x is supplied from Go data; two calls; x (and the first result) must be unchanged afterwards
		data["x"] = cs.Recv
		native = dataMap(data)
		before = dataMap(data)
		second := "x"
		if cs.Chain {
			second = "r"
		}
		show := func(name string, v Val) string {
			if v.K == VArr {
				return "{{ " + name + `.join("|") }}#{{ ` + name + ".len() }}"
			}
			return "{{ " + name + " }}"
		}
		r1 := c11Ref(cs.Fn, cs.Recv, cs.Args)
		if r1.unspec || r1.perm || r1.member || len(r1.alts) != 1 || r1.errOK {
			return true, "", "skipped", "skipped"
		}
		rv := r1.alts[0]
		recv2 := cs.Recv
		if cs.Chain {
			recv2 = rv
		}
		r2 := c11Ref(cs.Fn2, recv2, cs.Args2)
		if r2.unspec || len(r2.alts) != 1 || r2.errOK || r2.perm || r2.member {
			if !(r2.perm || r2.member) {
				return true, "", "skipped", "skipped"
			}
		}
		src := "{{ r = x." + cs.Fn + "(" + litArgs(cs.Args) + ") }}{{ s = " + second + "." + cs.Fn2 + "(" + litArgs(cs.Args2) + ") }}[" + show("x", cs.Recv) + "][" + show("r", rv) + "]"
		pr := func(v Val) (string, bool) {
			if v.K == VArr {
				parts := make([]string, len(v.A))
				for i, e := range v.A {
					p, ok := e.Print()
					if !ok {
						return "", false
					}
					parts[i] = p
				}
				return strings.Join(parts, "|") + fmt.Sprintf("#%d", len(v.A)), true
			}
			return v.Print()
		}
		px, ok1 := pr(cs.Recv)
		prv, ok2 := pr(rv)
		if !ok1 || !ok2 {
			return true, "", "skipped", "skipped"
		}
		want := "[" + px + "][" + prv + "]"
		o := runString(src, native)
		expected = fmt.Sprintf("Value(%q) (receiver and first result unchanged by the second call) for %s with x=%s", want, strconvQuote(src), cs.Recv.Lit())
		if o.Kind == KPanic || o.Kind == KHang {
			return false, o.Kind + "@" + o.Site, expected, o.String()
		}
		if !reflect.DeepEqual(native, before) {
			return false, "caller-data-modified/" + cs.Fn + "+" + cs.Fn2, expected, o.String()
		}
		if o.Kind != KOut || o.Out != want {
			return false, "not-pure/" + cs.Fn + "+" + cs.Fn2, expected, o.String()
		}
		return true, "", expected, o.String()
	case "same-value":
		lit := ""
		for _, f := range c11Families {
			for _, e := range f {
				if e == cs.ExprA {
					lit = f[0]
				}
			}
		}
		wrapE := func(x string) string { return x }
		if cs.Nest {
			wrapE = func(x string) string { return "[" + x + "]" }
		}
		src := "{{ [" + wrapE(cs.ExprA) + "].contains(" + wrapE(cs.ExprB) + ") }}|{{ [" + wrapE(lit) + "].contains(" + wrapE(lit) + ") }}|{{ [" + wrapE(cs.ExprA) + ", 1].contains(0) }}"
		o := runString(src, nil)
		expected = "contains is structural equality: the three results of " + strconvQuote(src) + " are true, true, false whichever way the equal values were built"
		if o.Kind == KPanic || o.Kind == KHang {
			return false, o.Kind + "@" + o.Site, expected, o.String()
		}
		if o.Kind != KOut {
			return true, "", expected, o.String() // one of the building expressions is not available: nothing to compare
		}
		parts := strings.Split(o.Out, "|")
		if len(parts) != 3 || parts[0] != parts[1] || parts[0] == parts[2] {
			return false, "contains-depends-on-how-the-value-was-built", expected, o.String()
		}
		return true, "", expected, o.String()
	case "held":
		// the result of one call is held in a variable while the same function answers for another receiver:
		// both results must read as they do when each call is made alone
		argSrc := litArgs(cs.Args)
		one := func(rv Val) Outcome {
			return runString("{{ h = x."+cs.Fn+"("+argSrc+") }}{{ h }}", dataMap(map[string]Val{"x": rv}))
		}
		o1, o2 := one(cs.Recv), one(cs.Recv2)
		if o1.Kind != KOut || o2.Kind != KOut {
			return true, "", "skipped", ""
		}
		src := "{{ h = a." + cs.Fn + "(" + argSrc + ") }}{{ k = b." + cs.Fn + "(" + argSrc + ") }}[{{ h }}|{{ k }}|{{ h }}]"
		o := runString(src, dataMap(map[string]Val{"a": cs.Recv, "b": cs.Recv2}))
		want := "[" + o1.Out + "|" + o2.Out + "|" + o1.Out + "]"
		expected = fmt.Sprintf("Value(%q) for %s (each call made alone gives these results)", want, strconvQuote(src))
		if o.Kind == KPanic || o.Kind == KHang {
			return false, o.Kind + "@" + o.Site, expected, o.String()
		}
		if o.Kind != KOut || o.Out != want {
			return false, "held-result-changed-by-a-later-call/" + cs.Recv.K + "." + cs.Fn, expected, o.String()
		}
		return true, "", expected, o.String()
	case "site":
		// the same call expression is evaluated twice, with receivers of different types
		src := "@each(o in [{v: " + cs.Recv.Lit() + "}, {v: " + cs.Recv2.Lit() + "}, {v: " + cs.Recv.Lit() + "}])[{{ o.v." + cs.Fn + "(" + litArgs(cs.Args) + ") }}];@end"
		want := ""
		wantErr := false
		unspec := false
		for _, rv := range []Val{cs.Recv, cs.Recv2, cs.Recv} {
			ref := c11Ref(cs.Fn, rv, cs.Args)
			if ref.unspec || ref.perm || ref.member || len(ref.alts) > 1 || (ref.errOK && len(ref.alts) > 0) {
				unspec = true
				break
			}
			if len(ref.alts) == 0 {
				wantErr = true
				break
			}
			p, pok := ref.alts[0].Print()
			if !pok {
				unspec = true
				break
			}
			want += "[" + p + "];"
		}
		o := runString(src, nil)
		expected = fmt.Sprintf("Value(%q) for %s", want, strconvQuote(src))
		if wantErr {
			expected = "Error for " + strconvQuote(src)
		}
		if o.Kind == KPanic || o.Kind == KHang {
			return false, o.Kind + "@" + o.Site, expected, o.String()
		}
		if unspec {
			return true, "", "unspecified", o.String()
		}
		if wantErr != (o.Kind == KErr) || (!wantErr && o.Out != want) {
			return false, "call-site-reuse/" + cs.Recv.K + "-then-" + cs.Recv2.K + "." + cs.Fn, expected, o.String()
		}
		return true, "", expected, o.String()
	case "precedence":
		// a custom function registered under a built-in's name must not be called
		var called bool
		o := guard(func() Outcome {
			rt.ResetRoot()
			called = false
			var err error
			switch cs.Recv.K {
			case VStr:
				err = textwire.RegisterStrFunc(cs.Fn, func(s string, a ...any) string { called = true; return "CUSTOM" })
			case VArr:
				err = textwire.RegisterArrFunc(cs.Fn, func(s []any, a ...any) []any { called = true; return []any{"CUSTOM"} })
			case VInt:
				err = textwire.RegisterIntFunc(cs.Fn, func(s int, a ...any) int { called = true; return 424242 })
			case VFloat:
				err = textwire.RegisterFloatFunc(cs.Fn, func(s float64, a ...any) float64 { called = true; return 4242.5 })
			case VBool:
				err = textwire.RegisterBoolFunc(cs.Fn, func(s bool, a ...any) bool { called = true; return !s })
			}
			_ = err // registration may be refused; what matters is which function answers the call
			out, e := textwire.EvaluateString("{{ r = "+recvSrc+"."+cs.Fn+"("+litArgs(cs.Args)+") }}[{{ r }}]", native)
			if e != nil {
				return parseErr(e)
			}
			return Outcome{Kind: KOut, Out: out}
		})
		ref := c11Ref(cs.Fn, cs.Recv, cs.Args)
		expected = "the built-in answers: " + c11Describe(ref)
		if o.Kind == KPanic || o.Kind == KHang {
			return false, o.Kind + "@" + o.Site, expected, o.String()
		}
		if called || strings.Contains(o.Out, "CUSTOM") || strings.Contains(o.Out, "4242") {
			return false, "custom-shadows-builtin/" + cs.Recv.K + "." + cs.Fn, expected, o.String()
		}
		if len(ref.alts) == 1 && !ref.perm && !ref.member && !ref.errOK {
			if p, pok := ref.alts[0].Print(); pok && o.Kind == KOut && o.Out != "["+p+"]" {
				return false, "wrong-value-with-custom-registered/" + cs.Recv.K + "." + cs.Fn, expected, o.String()
			}
		}
		return true, "", expected, o.String()
	}
	panic("harness bug: mode " + cs.Mode)
}

func c11CheckRandom(cs c11Case, ref refOut, o Outcome, expected string, bad func(string) (bool, string, string, string)) (bool, string, string, string) {
	base := ref.alts[0]
	var prints []string
	for _, e := range base.A {
		p, ok := e.Print()
		if !ok {
			return true, "", expected, o.String()
		}
		prints = append(prints, p)
	}
	if ref.member {
		for _, p := range prints {
			if o.Out == "["+p+"]" {
				return true, "", expected, o.String()
			}
		}
		return bad("rand-not-a-member")
	}
	// permutation: compare as multisets of element prints (elements are chosen so that prints contain no ", ")
	body := strings.TrimPrefix(o.Out, "[")
	idx := strings.LastIndex(body, "]|")
	if idx < 0 {
		return bad("shuffle-not-an-array")
	}
	got := []string{}
	if body[:idx] != "" || len(base.A) > 0 {
		got = strings.Split(body[:idx], ", ")
	}
	if len(base.A) == 0 {
		got = []string{}
	}
	a := append([]string{}, prints...)
	sort.Strings(a)
	sort.Strings(got)
	if !reflect.DeepEqual(a, got) || body[idx+2:] != fmt.Sprint(len(base.A)) {
		return bad("shuffle-not-a-permutation")
	}
	return true, "", expected, o.String()
}

func c11Describe(r refOut) string {
	if r.unspec {
		return "Unspecified"
	}
	var parts []string
	for _, v := range r.alts {
		parts = append(parts, v.String())
	}
	if r.perm {
		return "a permutation of " + strings.Join(parts, "")
	}
	if r.member {
		return "a member of " + strings.Join(parts, "")
	}
	if r.errOK {
		parts = append(parts, "Error")
	}
	return "OneOf[" + strings.Join(parts, " | ") + "]"
}

// ---------------------------------------------------------------------------------------------
// domains

func c11Strings(maxLen int) []Val {
	syms := []string{"a", "B", " ", "é", "ß", "日", ",", "ı", "ⱥ"} // the last two change their UTF-8 length when upper-cased
	out := []Val{vStr("")}
	var rec func(cur string, n int)
	rec = func(cur string, n int) {
		if n == 0 {
			return
		}
		for _, s := range syms {
			out = append(out, vStr(cur+s))
			rec(cur+s, n-1)
		}
	}
	rec("", maxLen)
	return out
}

func c11Arrays(maxLen int) []Val {
	atoms := []Val{vInt(1), vInt(2), vStr("a"), vArr(vInt(1)), vObj("k", vInt(1)), vNil()}
	out := []Val{{K: VArr}}
	var rec func(cur []Val, n int)
	rec = func(cur []Val, n int) {
		if n == 0 {
			return
		}
		for _, a := range atoms {
			nx := append(append([]Val{}, cur...), a)
			out = append(out, Val{K: VArr, A: nx})
			rec(nx, n-1)
		}
	}
	rec(nil, maxLen)
	return out
}

var c11WrongKind = []Val{vInt(1), vStr("a"), vBool(true), vNil(), {K: VArr}, vFloat(0.5), {K: VObj, O: map[string]Val{}}}

// c11ArgTuples lists the argument tuples tried for fn on recv.
func c11ArgTuples(fn string, recv Val) [][]Val {
	var out [][]Val
	add := func(a ...Val) { out = append(out, a) }
	n := int64(0)
	if recv.K == VStr {
		n = int64(utf8.RuneCountInString(recv.S))
	} else if recv.K == VArr {
		n = int64(len(recv.A))
	}
	ints := func(f func(i int64)) {
		for i := -n - 2; i <= n+2; i++ {
			f(i)
		}
	}
	add()
	switch fn {
	case "at":
		ints(func(i int64) { add(vInt(i)) })
	case "truncate":
		ints(func(i int64) {
			add(vInt(i))
			add(vInt(i), vStr("…"))
			add(vInt(i), vStr(""))
		})
	case "repeat":
		for i := int64(-2); i <= 3; i++ {
			add(vInt(i))
		}
	case "split", "join":
		for _, s := range []string{" ", ",", "", "é", "a", ", "} {
			add(vStr(s))
		}
	case "trim", "trimLeft", "trimRight":
		for _, s := range []string{"a", " a", "é", "", "B日"} {
			add(vStr(s))
		}
	case "contains":
		if recv.K == VStr {
			for _, s := range []string{"", "a", "é", "B ", "日", recv.S} {
				add(vStr(s))
			}
		} else {
			for _, v := range []Val{vInt(1), vInt(2), vInt(3), vStr("a"), vStr("1"), vArr(vInt(1)), vArr(vInt(2)), {K: VArr}, vObj("k", vInt(1)), vObj("k", vInt(2)), vObj("j", vInt(1)), vNil(), vFloat(1), vBool(true)} {
				add(v)
			}
		}
	case "slice":
		ints(func(i int64) {
			add(vInt(i))
			ints(func(j int64) { add(vInt(i), vInt(j)) })
		})
	case "append", "prepend":
		for _, v := range []Val{vInt(9), vStr("z"), vNil(), vArr(vInt(7))} {
			add(v)
			add(v, vInt(8))
		}
	case "decimal":
		for _, sep := range []string{".", ",", ""} {
			add(vStr(sep))
			for i := int64(-2); i <= 3; i++ {
				add(vStr(sep), vInt(i))
			}
		}
		add(vStr("."), vInt(2), vInt(1))
		// separators that end in a digit, counts of two digits: ("#", 12) and ("#1", 2) spell the same "#12"
		for _, sep := range []string{"#", "#1", "1", "", "-"} {
			for _, n := range []int64{1, 2, 12, 11} {
				add(vStr(sep), vInt(n))
			}
		}
	case "then":
		add(vStr("yes"))
		add(vStr("yes"), vStr("no"))
		add(vInt(1), vArr(vInt(2)))
		add(vNil(), vBool(false))
	}
	// wrong-kind tuples of length 1 and 2
	for _, a := range c11WrongKind {
		add(a)
		for _, b := range c11WrongKind {
			add(a, b)
		}
	}
	return out
}

var c11Funcs = map[string][]string{
	VStr:   {"len", "split", "raw", "trim", "trimRight", "trimLeft", "upper", "lower", "capitalize", "reverse", "contains", "truncate", "decimal", "at", "first", "last", "repeat", "zz", "join", "abs"},
	VArr:   {"len", "join", "rand", "reverse", "slice", "shuffle", "contains", "append", "prepend", "zz", "upper"},
	VInt:   {"float", "abs", "str", "len", "decimal", "zz", "int"},
	VFloat: {"int", "str", "abs", "ceil", "floor", "round", "zz", "float"},
	VBool:  {"binary", "then", "zz", "str"},
}

func c11Run(c *Ctx) {
	order := int64(0)
	do := func(cs c11Case, size int) bool {
		if c.Expired() {
			return false
		}
		order++
		c.Trace(cs)
		ok, sig, exp, obs := c11Check(cs)
		if exp == "skipped" {
			return true
		}
		c.Evals(1)
		nontriv := cs.Mode != "call" || len(cs.Args) > 0 || strings.ContainsAny(cs.Recv.S, "éß日") || cs.Recv.K == VArr
		c.Case(nontriv)
		c.OutcomeClass(strings.SplitN(obs, "(", 2)[0])
		if order%2503 == 1 {
			c.Sample(map[string]any{"case": cs, "expected": exp, "observed": obs})
		}
		if !ok {
			c.Report(sig, int64(size)*100000000+order%100000000, cs, exp, obs, "")
		}
		return true
	}
	strLen, arrLen := 3, 3
	if c.Thorough() {
		strLen, arrLen = 4, 4
	}
	strs := c11Strings(strLen)
	// strings that look like numbers, or almost
	for _, x := range []string{"-", "+", "-5", "+5", "12", "007", "-0", "99999999999999999999", "9223372036854775807", "9223372036854775808", "-9223372036854775808", "-9223372036854775809",
		"1.5", " 12", "12 ", "1e3", "0x10", "1_000", "١٢", "--5", "5-"} {
		strs = append(strs, vStr(x))
	}
	if !c.Thorough() {
		strs = append(strs, vStr("héllo"), vStr("éa日"), vStr("aBé"), vStr("日本語"), vStr(" a "), vStr("a,B"))
	}
	strs = append(strs, vStr("12"), vStr("-3"), vStr("1.5"), vStr("007"), vStr("&lt;b&gt;"), vStr("Hello World"), vStr("<b>"), vStr("a&b"), vStr("<"))
	arrs := c11Arrays(arrLen)
	if !c.Thorough() {
		arrs = append(arrs, vArr(vInt(1), vInt(2), vInt(3)), vArr(vStr("a"), vStr("b"), vStr("c"), vStr("d")), vArr(vArr(vInt(1)), vArr(vInt(1)), vInt(1)))
	}
	ints := []Val{vInt(math.MinInt64), vInt(-10), vInt(-1), vInt(0), vInt(1), vInt(9), vInt(10), vInt(math.MaxInt64), vInt(123)}
	// every power of ten and its two neighbours (digit counts, rounding of conversions through floats)
	for p10 := int64(100); p10 > 0 && p10 <= 1000000000000000000; p10 *= 10 {
		ints = append(ints, vInt(p10-1), vInt(p10), vInt(p10+1), vInt(-p10), vInt(-p10+1))
		if p10 == 1000000000000000000 {
			break
		}
	}
	floats := []Val{vFloat(-1.5), vFloat(-0.5), vFloat(0), vFloat(0.4), vFloat(0.5), vFloat(1.5), vFloat(2.5), vFloat(-2.5), vFloat(3.99),
		vFloat(1e19), vFloat(-1e19), vFloat(9.3e18), vFloat(9223372036854775808), vFloat(-9223372036854775808), vFloat(9223372036854774784)}
	bools := []Val{vBool(true), vBool(false)}
	groups := []struct {
		kind  string
		recvs []Val
	}{{VStr, strs}, {VArr, arrs}, {VInt, ints}, {VFloat, floats}, {VBool, bools}}
	for _, g := range groups {
		for ri, r := range g.recvs {
			if !c.Mine() {
				continue
			}
			for _, fn := range c11Funcs[g.kind] {
				for _, args := range c11ArgTuples(fn, r) {
					special := false
					for _, a := range args {
						special = special || (a.K == VStr && strings.ContainsAny(a.S, "&<>\"'"))
					}
					if special {
						continue // literal arguments with HTML-special characters are escaped before the call (C10)
					}
					for _, asVar := range []bool{false, true} {
						if asVar && (r.K == VInt && (r.I == math.MinInt64)) {
							// fine as data
						}
						if !asVar && r.K == VInt && r.I == math.MinInt64 {
							continue // no literal for the minimum
						}
						if !asVar && r.K == VStr && strings.ContainsAny(r.S, "\"'") {
							continue // quotes inside a literal: the two quote styles are C10's matter
						}
						if !do(c11Case{Mode: "call", Recv: r, Fn: fn, Args: args, AsVar: asVar}, ri) {
							return
						}
						if len(args) > 0 && asVar {
							if !do(c11Case{Mode: "call", Recv: r, Fn: fn, Args: args, AsVar: asVar, Wrap: true}, ri) {
								return
							}
						}
					}
				}
				// precedence of the built-in over a custom function of the same name
				if _, isBuiltin := c11MaxArgs[fn]; isBuiltin && ri < 6 && !c11NoSuchFunc(fn, r) {
					if !do(c11Case{Mode: "precedence", Recv: r, Fn: fn, Args: nil}, ri) {
						return
					}
				}
			}
		}
	}
	// a held result next to a later call of the same function (random built-ins excluded)
	heldRecv := map[string][]Val{
		VStr:   {vStr("abc"), vStr("éa日"), vStr(" x y "), vStr("12")},
		VArr:   {vArr(vInt(1), vInt(2), vInt(3)), vArr(vStr("a"), vStr("b")), vArr(vInt(5))},
		VInt:   {vInt(5), vInt(123), vInt(-10)},
		VFloat: {vFloat(1.5), vFloat(2.25), vFloat(-0.5), vFloat(3)},
		VBool:  {vBool(true), vBool(false)},
	}
	for _, g := range groups {
		if !c.Mine() {
			continue
		}
		for _, fn := range c11Funcs[g.kind] {
			if fn == "rand" || fn == "shuffle" {
				continue
			}
			rs := heldRecv[g.kind]
			for i, r1 := range rs {
				for j, r2 := range rs {
					if i == j {
						continue
					}
					tuples := c11ArgTuples(fn, r1)
					for ti, args := range tuples {
						if ti > 5 {
							break
						}
						special := false
						for _, a := range args {
							special = special || (a.K == VStr && strings.ContainsAny(a.S, "&<>\"'"))
						}
						if special {
							continue
						}
						if !do(c11Case{Mode: "held", Recv: r1, Recv2: r2, Fn: fn, Args: args}, 0) {
							return
						}
					}
				}
			}
		}
	}
	// one call site, receivers of different types
	siteRecv := []Val{vStr("abc"), vArr(vInt(1), vInt(2)), vInt(5), vFloat(2.5), vBool(true)}
	var allFns []string
	seenFn := map[string]bool{}
	for _, k := range []string{VStr, VArr, VInt, VFloat, VBool} {
		for _, f := range c11Funcs[k] {
			if !seenFn[f] {
				seenFn[f] = true
				allFns = append(allFns, f)
			}
		}
	}
	for _, fn := range allFns {
		if !c.Mine() {
			continue
		}
		for _, r1 := range siteRecv {
			for _, r2 := range siteRecv {
				if r1.K == r2.K {
					continue
				}
				for _, args := range [][]Val{nil, {vInt(1)}, {vStr("a")}} {
					if !do(c11Case{Mode: "site", Recv: r1, Recv2: r2, Fn: fn, Args: args}, 0) {
						return
					}
				}
			}
		}
	}
	// structural equality does not depend on how equal values were built
	if c.Mine() {
		for _, fam := range c11Families {
			for _, a := range fam {
				for _, b := range fam {
					for _, nest := range []bool{false, true} {
						if !do(c11Case{Mode: "same-value", ExprA: a, ExprB: b, Nest: nest}, 0) {
							return
						}
					}
				}
			}
		}
	}
	// purity / aliasing: every pair of array functions (and string functions) on one receiver, and chained on the first result
	pureArr := []struct {
		fn   string
		args []Val
	}{{"reverse", nil}, {"slice", []Val{vInt(1)}}, {"slice", []Val{vInt(0), vInt(2)}}, {"append", []Val{vInt(9)}}, {"prepend", []Val{vInt(8)}}, {"shuffle", nil}, {"join", []Val{vStr("-")}}, {"contains", []Val{vInt(1)}}, {"len", nil}, {"rand", nil}}
	pureStr := []struct {
		fn   string
		args []Val
	}{{"reverse", nil}, {"upper", nil}, {"capitalize", nil}, {"truncate", []Val{vInt(1)}}, {"trim", nil}, {"repeat", []Val{vInt(2)}}, {"split", []Val{vStr("")}}, {"at", []Val{vInt(1)}}}
	for _, r := range []Val{vArr(vInt(1), vInt(2), vInt(3)), vArr(vStr("a"), vStr("b")), vArr(vInt(5)), {K: VArr}, vArr(vInt(1), vInt(2), vInt(3), vInt(4), vInt(5))} {
		for _, f := range pureArr {
			if !c.Mine() {
				continue
			}
			for _, g := range pureArr {
				for _, chain := range []bool{false, true} {
					if !do(c11Case{Mode: "pure", Recv: r, Fn: f.fn, Args: f.args, Fn2: g.fn, Args2: g.args, Chain: chain}, 0) {
						return
					}
				}
			}
		}
	}
	for _, r := range []Val{vStr("abc"), vStr("éa日"), vStr(" x ")} {
		for _, f := range pureStr {
			if !c.Mine() {
				continue
			}
			for _, g := range pureStr {
				if !do(c11Case{Mode: "pure", Recv: r, Fn: f.fn, Args: f.args, Fn2: g.fn, Args2: g.args}, 0) {
					return
				}
			}
		}
	}
}

func init() {
	p := &Property{
		ID:    "C11",
		Level: "exploration",
		Rule: "bounded-exhaustive: every built-in x receivers (all strings of <=3/4 characters over {a B space é ß 日 ,} plus numeric strings; all arrays of <=3/4 elements over {1 2 \"a\" [1] {k: 1} nil}; boundary ints; floats around .5; booleans), receiver as literal and as data variable x all argument tuples of its domain (every index/count in -len-2..len+2, every (start,end) pair, separators, structural-equality probes) and every wrong-kind tuple of length <=2; every pair of calls on one receiver and chained on the first result (purity / aliasing); a custom function registered under each built-in name; held results: for every function and ordered pair of receivers of its type, the first result kept in a variable while the second call is made, both compared with the calls made alone. " +
			"Independent Go reference per function; results also checked for valid UTF-8 and unchanged caller data. Non-trivial: the call has arguments, a multi-byte or array receiver, or is a purity/precedence case",
		Bounds: func(tier string) map[string]any {
			if tier == "thorough" {
				return map[string]any{"string_len": 4, "array_len": 4}
			}
			return map[string]any{"string_len": 3, "array_len": 3}
		},
		Assume: []string{
			"for out-of-range arguments (negative counts, index below -len, start > end, negative end) the admissible set is {Error, the clamped result}",
			"split, trim*, upper, lower, join, repeat, int len, decimal, raw follow the behaviour documented in their own comments (Go's strings package); surplus arguments are unspecified",
			"shuffle is checked as a permutation, rand as membership",
		},
		Run: c11Run,
	}
	registerTyped(p, c11Check)
}
