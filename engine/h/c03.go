package main

import (
	"fmt"
	"strings"
)

// C03 — @each/@for iterate in order with correct loop metadata, break/continue and @else.

type c03Case struct {
	Loop    string `json:"loop"`           // each | for
	Kind    int    `json:"kind,omitempty"` // each: 0 literal ints, 1 data ints, 2 data strings, 3 data structs, 4 heterogeneous literal, 5 non-array (int), 6 non-array (string), 7 data []map
	Len     int    `json:"len,omitempty"`
	Items   []int  `json:"items"` // indices into the body alphabet
	HasElse bool   `json:"has_else,omitempty"`
	Else    int    `json:"else,omitempty"`  // 0 text, 1 @break, 2 @continue  (only meaningful inside an outer loop)
	Outer   int    `json:"outer,omitempty"` // 0 none, 1 wrapped in an outer @each of 2 passes that prints its own loop.index around it
	A       int    `json:"a,omitempty"`     // for: init value
	B       int    `json:"b,omitempty"`     // for: bound
	CondOp  int    `json:"cond_op,omitempty"`
	PostOp  int    `json:"post_op,omitempty"`
	Vars    int    `json:"vars,omitempty"` // for: 0 literal bounds; bounds held in variables that are read again after the loop: 1 assigned in the template, 2 data ints, 3 data floats (+0.5)
}

type C03Item struct{ N int }

func loopProp(p string) *Expr { return eDot(eVar("loop"), p) }

func c03Conds(forLoop bool) []*Expr {
	if forLoop {
		return []*Expr{eBin("==", eVar("i"), eLit(vInt(1))), eLit(vBool(true)), eLit(vBool(false)), eBin(">", eVar("i"), eLit(vInt(0)))}
	}
	return []*Expr{eBin("==", loopProp("index"), eLit(vInt(1))), loopProp("first"), loopProp("last"), eLit(vBool(true)), eLit(vBool(false))}
}

// c03Alphabet builds the body items. The first `reduced` items form the reduced alphabet used
// for the longest sequences of the quick tier.
func c03Alphabet(forLoop bool) (items []func() *Node, reduced int) {
	add := func(f func() *Node) { items = append(items, f) }
	conds := c03Conds(forLoop)
	ctl := func(k int, tag string) *Node {
		switch k {
		case 1:
			return &Node{K: "break"}
		case 2:
			return &Node{K: "continue"}
		}
		return nText(tag)
	}
	add(func() *Node { return nText("A") })
	if forLoop {
		add(func() *Node { return nPrint(eVar("i")) })
	} else {
		add(func() *Node { return nPrint(eVar("v")) })
		add(func() *Node { return nPrint(loopProp("index")) })
		add(func() *Node { return nPrint(loopProp("iter")) })
		add(func() *Node { return nPrint(loopProp("first")) })
		add(func() *Node { return nPrint(loopProp("last")) })
	}
	add(func() *Node { return &Node{K: "break"} })
	add(func() *Node { return &Node{K: "continue"} })
	for _, cd := range conds[:3] {
		cd := cd
		add(func() *Node { return &Node{K: "breakif", E: cd} })
		add(func() *Node { return &Node{K: "continueif", E: cd} })
	}
	for _, cd := range conds[:3] {
		for k := 0; k < 3; k++ {
			cd, k := cd, k
			add(func() *Node { return &Node{K: "if", E: cd, Body: []*Node{nText("<"), ctl(k, "X"), nText(">")}} })
		}
	}
	// nested loop that prints its own metadata; a break inside it must leave the outer loop running
	add(func() *Node {
		return &Node{K: "each", Name: "w", E: &Expr{Op: "arr", Kids: []*Expr{eLit(vInt(7)), eLit(vInt(8))}},
			Body: []*Node{nText("("), nPrint(loopProp("index")), nPrint(eVar("w")), {K: "breakif", E: loopProp("first")}, nText(")")}}
	})
	add(func() *Node {
		return &Node{K: "each", Name: "w", E: &Expr{Op: "arr"}, Body: []*Node{nText("never")}, HasElse: true, Else: []*Node{nText("(e)"), {K: "continue"}, nText("dead")}}
	})
	if !forLoop {
		// a nested loop over the same variable name: the outer element is back once the inner loop has ended
		add(func() *Node {
			return &Node{K: "if", E: eLit(vBool(true)), Body: []*Node{{K: "each", Name: "v", E: &Expr{Op: "arr", Kids: []*Expr{eLit(vInt(7)), eLit(vInt(8))}},
				Body: []*Node{nText("("), nPrint(loopProp("iter")), nPrint(eVar("v")), nText(")")}}, nText("="), nPrint(eVar("v"))}}
		})
	}
	add(func() *Node { return nText("B") })
	reduced = len(items)
	for _, cd := range conds[3:] {
		cd := cd
		add(func() *Node { return &Node{K: "breakif", E: cd} })
		add(func() *Node { return &Node{K: "continueif", E: cd} })
		for k := 0; k < 3; k++ {
			k := k
			add(func() *Node { return &Node{K: "if", E: cd, Body: []*Node{ctl(k, "X")}} })
		}
	}
	// control directives two and three @if levels deep
	for k := 1; k < 3; k++ {
		k := k
		add(func() *Node {
			return &Node{K: "if", E: conds[1], Body: []*Node{nText("{"), {K: "if", E: eLit(vBool(true)), Body: []*Node{nText("["), ctl(k, ""), nText("]")}}, nText("}")}}
		})
		add(func() *Node {
			return &Node{K: "if", E: eLit(vInt(1)), Body: []*Node{{K: "if", E: conds[0], Body: []*Node{{K: "if", E: eLit(vStr("x")), Body: []*Node{ctl(k, "")}, HasElse: true, Else: []*Node{nText("e")}}}}, nText("}")}}
		})
	}
	// @if / @elseif / @else with every combination of text / @break / @continue
	c1, c2 := conds[1], conds[2]
	if forLoop {
		c1, c2 = conds[0], conds[3]
	}
	for x := 0; x < 3; x++ {
		for y := 0; y < 3; y++ {
			for z := 0; z < 3; z++ {
				x, y, z := x, y, z
				add(func() *Node {
					return &Node{K: "if", E: c1, Body: []*Node{ctl(x, "X")}, ElseIfs: []ElseIf{{Cond: c2, Body: []*Node{ctl(y, "Y")}}}, HasElse: true, Else: []*Node{ctl(z, "Z")}}
				})
			}
		}
	}
	// nested @each of length 0..2, three bodies, four @else variants
	for l := 0; l <= 2; l++ {
		for bv := 0; bv < 3; bv++ {
			for ev := 0; ev < 4; ev++ {
				l, bv, ev := l, bv, ev
				add(func() *Node {
					arr := &Expr{Op: "arr"}
					for i := 0; i < l; i++ {
						arr.Kids = append(arr.Kids, eLit(vInt(int64(5+i))))
					}
					n := &Node{K: "each", Name: "w", E: arr}
					switch bv {
					case 0:
						n.Body = []*Node{nText("("), nPrint(loopProp("iter")), nPrint(loopProp("last")), nText(")")}
					case 1:
						n.Body = []*Node{nText("("), {K: "break"}, nText("dead)")}
					default:
						n.Body = []*Node{nText("("), {K: "continueif", E: loopProp("first")}, nPrint(loopProp("index")), nText(")")}
					}
					if ev > 0 {
						n.HasElse = true
						n.Else = []*Node{nText("(else"), ctl(ev-1, ""), nText(")")}
					}
					return n
				})
			}
		}
	}
	return items, reduced
}

func c03Build(cs c03Case) ([]*Node, map[string]Val, map[string]any) {
	forLoop := cs.Loop == "for"
	alpha, _ := c03Alphabet(forLoop)
	var body []*Node
	for _, ix := range cs.Items {
		body = append(body, alpha[ix]())
	}
	data := map[string]Val{}
	var native map[string]any
	var loop *Node
	if forLoop {
		condOps := []string{"<", ">", "!=", "<="}
		from, to := intExpr(cs.A), intExpr(cs.B)
		if cs.Vars > 0 {
			from, to = eVar("a"), eVar("b")
		}
		loop = &Node{K: "for", Init: nAssign("i", from), Cond: eBin(condOps[cs.CondOp], eVar("i"), to), Body: body}
		switch cs.PostOp {
		case 0:
			loop.Post = nPrint(&Expr{Op: "inc", Kids: []*Expr{eVar("i")}})
		case 1:
			loop.Post = nPrint(&Expr{Op: "dec", Kids: []*Expr{eVar("i")}})
		default:
			loop.Post = nAssign("i", eBin("+", eVar("i"), eLit(vInt(1))))
		}
	} else {
		var arr *Expr
		mk := func(f func(i int) Val) Val {
			a := Val{K: VArr}
			for i := 0; i < cs.Len; i++ {
				a.A = append(a.A, f(i))
			}
			return a
		}
		switch cs.Kind {
		case 0:
			arr = &Expr{Op: "arr"}
			for i := 0; i < cs.Len; i++ {
				arr.Kids = append(arr.Kids, eLit(vInt(int64(10+i))))
			}
		case 1:
			data["xs"] = mk(func(i int) Val { return vInt(int64(10 + i)) })
			arr = eVar("xs")
		case 2:
			data["xs"] = mk(func(i int) Val { return vStr(fmt.Sprintf("s%d", i)) })
			arr = eVar("xs")
		case 3:
			data["xs"] = mk(func(i int) Val { return vObj("N", vInt(int64(i))) })
			var items []C03Item
			for i := 0; i < cs.Len; i++ {
				items = append(items, C03Item{N: i})
			}
			native = map[string]any{"xs": items}
			if cs.Len == 0 {
				native = map[string]any{"xs": []C03Item{}}
			}
			arr = eVar("xs")
		case 4:
			arr = &Expr{Op: "arr", Kids: []*Expr{eLit(vInt(1)), eLit(vStr("a")), eLit(vInt(3))}}
		case 5:
			arr = eLit(vInt(5))
		case 6:
			data["xs"] = vStr("abc")
			arr = eVar("xs")
		default:
			data["xs"] = mk(func(i int) Val { return vObj("k", vStr(fmt.Sprintf("m%d", i))) })
			arr = eVar("xs")
		}
		loop = &Node{K: "each", Name: "v", E: arr, Body: body}
	}
	if cs.HasElse {
		loop.HasElse = true
		switch cs.Else {
		case 1:
			loop.Else = []*Node{nText("E"), {K: "break"}, nText("dead")}
		case 2:
			loop.Else = []*Node{nText("E"), {K: "continue"}, nText("dead")}
		default:
			loop.Else = []*Node{nText("EL")}
		}
	}
	tree := []*Node{nText("P"), loop, nText("Q")}
	if cs.Outer == 1 {
		tree = []*Node{nText("P"), {K: "each", Name: "u", E: &Expr{Op: "arr", Kids: []*Expr{eLit(vStr("x")), eLit(vStr("y"))}},
			Body: []*Node{nText("<"), nPrint(loopProp("index")), loop, nPrint(loopProp("iter")), nPrint(eVar("u")), nText(">")}}, nText("Q")}
	}
	if forLoop && cs.Vars > 0 {
		// the loop is entered twice (outer loop) and the variables holding its bounds are read afterwards
		switch cs.Vars {
		case 1:
			tree = append([]*Node{nAssign("a", intExpr(cs.A)), nAssign("b", intExpr(cs.B))}, tree...)
		case 2:
			data["a"], data["b"] = vInt(int64(cs.A)), vInt(int64(cs.B))
		default:
			data["a"], data["b"] = vFloat(float64(cs.A)+0.5), vFloat(float64(cs.B)+0.5)
		}
		tree = append(tree, nText("["), nPrint(eVar("a")), nText(","), nPrint(eVar("b")), nText("]"))
	}
	if native == nil {
		native = dataMap(data)
	}
	return tree, data, native
}

func intExpr(i int) *Expr {
	if i < 0 {
		return &Expr{Op: "neg", Kids: []*Expr{eLit(vInt(int64(-i)))}}
	}
	return eLit(vInt(int64(i)))
}

// c03Model returns the expectation; skip=true when the program does not terminate within the
// reference horizon (then the implementation is not run at all).
func c03Model(cs c03Case) (tree []*Node, native map[string]any, exp Expect, skip bool) {
	tree, data, native := c03Build(cs)
	out, st := evalTemplate(tree, data)
	if cs.Loop == "for" && st == sUnspec {
		return tree, native, Expect{Kind: EUnspec}, true
	}
	return tree, native, expectOf(out, st), false
}

func c03Check(cs c03Case) (ok bool, sig, expected, observed string) {
	tree, native, exp, skip := c03Model(cs)
	if skip {
		return true, "", "skipped", "skipped"
	}
	src := printNodes(tree)
	o := runString(src, native)
	good, why := conforms(exp, o)
	if good {
		return true, "", exp.String(), o.String()
	}
	if o.Kind == KPanic || o.Kind == KHang {
		return false, o.Kind + "@" + o.Site, exp.String() + " for " + src, o.String()
	}
	// feature: coarse shape of the program (first control directive, empty body, @else, post form)
	feat := "plain"
	switch {
	case len(cs.Items) == 0:
		feat = "empty-body"
	case strings.Contains(src, "@each(w"):
		feat = "nested-loop"
	case strings.Contains(src, "@elseif"):
		feat = "ctl-in-elseif-chain"
	case strings.Contains(src, "@if("):
		feat = "ctl-in-if"
	case strings.Contains(src, "@breakIf"), strings.Contains(src, "@continueIf"):
		feat = "breakIf/continueIf"
	case strings.Contains(src, "@break"), strings.Contains(src, "@continue"):
		feat = "break/continue"
	}
	if cs.HasElse {
		feat += fmt.Sprintf("+else%d", cs.Else)
	}
	if cs.Outer == 1 {
		feat += "+outer"
	}
	if cs.Loop == "for" {
		feat += fmt.Sprintf("/post%d", cs.PostOp)
	}
	if cs.Loop == "each" && cs.Kind >= 3 {
		feat += fmt.Sprintf("/kind%d", cs.Kind)
	}
	return false, why + "/" + cs.Loop + "/" + feat, exp.String() + " for " + src, o.String()
}

func c03Run(c *Ctx) {
	order := int64(0)
	do := func(cs c03Case) bool {
		if c.Expired() {
			return false
		}
		order++
		c.Trace(cs)
		tree, native, exp, skip := c03Model(cs)
		if skip {
			c.Count("skipped_nonterminating_within_horizon", 1)
			return true
		}
		src := printNodes(tree)
		o := runString(src, native)
		c.Evals(1)
		// non-trivial: a control directive is present in the body, or loops are nested
		nontriv := strings.Contains(src, "@break") || strings.Contains(src, "@continue") || strings.Count(src, "@each") > 1 || cs.HasElse
		c.Case(nontriv)
		if order%211 == 1 {
			c.Sample(map[string]any{"src": src, "expected": exp.String()})
		}
		c.OutcomeClass(o.Kind)
		if good, _ := conforms(exp, o); !good {
			_, sig, e, ob := c03Check(cs)
			c.Report(sig, order+int64(len(src))*1000000, cs, e, ob, "")
		}
		return true
	}
	type hdr struct {
		kind, ln int
	}
	var eachHdrs []hdr
	maxLen := 4
	if c.Thorough() {
		maxLen = 5
	}
	for k := 0; k <= 3; k++ {
		for l := 0; l <= maxLen; l++ {
			eachHdrs = append(eachHdrs, hdr{k, l})
		}
	}
	eachHdrs = append(eachHdrs, hdr{4, 3}, hdr{5, 0}, hdr{6, 0}, hdr{7, 2})
	alpha, reduced := c03Alphabet(false)
	falpha, freduced := c03Alphabet(true)

	runEach := func(n, k int) bool {
		return seqEnum(c, n, k, func(idx []int) bool {
			items := append([]int{}, idx...)
			for _, h := range eachHdrs {
				if k == 3 && !c.Thorough() && (h.kind > 1 || h.ln == 4) && h.kind < 4 {
					continue
				}
				for _, outer := range []int{0, 1} {
					elses := []int{-1, 0}
					if outer == 1 {
						elses = []int{-1, 0, 1, 2}
					}
					for _, el := range elses {
						cs := c03Case{Loop: "each", Kind: h.kind, Len: h.ln, Items: items, Outer: outer}
						if el >= 0 {
							cs.HasElse, cs.Else = true, el
						}
						if !do(cs) {
							return false
						}
					}
				}
			}
			return true
		})
	}
	runFor := func(n, k int) bool {
		return seqEnum(c, n, k, func(idx []int) bool {
			items := append([]int{}, idx...)
			for a := -1; a <= 3; a++ {
				for b := -1; b <= 3; b++ {
					for co := 0; co < 4; co++ {
						for po := 0; po < 3; po++ {
							if k >= 2 && !c.Thorough() && (po == 2 || co >= 2) && (a+b)%2 != 0 {
								continue
							}
							for _, el := range []int{-1, 0} {
								cs := c03Case{Loop: "for", A: a, B: b, CondOp: co, PostOp: po, Items: items}
								if el >= 0 {
									cs.HasElse = true
								}
								if !do(cs) {
									return false
								}
								if k <= 1 && el < 0 {
									for vars := 1; vars <= 3; vars++ {
										cs.Vars, cs.Outer = vars, 1
										if !do(cs) {
											return false
										}
									}
								}
							}
						}
					}
				}
			}
			return true
		})
	}
	for k := 0; k <= 2; k++ {
		if !runEach(len(alpha), k) {
			return
		}
	}
	for k := 0; k <= 2; k++ {
		n := len(falpha)
		if k == 2 && !c.Thorough() {
			n = freduced
		}
		if !runFor(n, k) {
			return
		}
	}
	if c.Thorough() {
		// length 3 over the first half of the alphabet (every kind of item occurs in it), all headers
		n3 := reduced + 22
		if n3 > len(alpha) {
			n3 = len(alpha)
		}
		if !runEach(n3, 3) {
			return
		}
		if !runFor(freduced, 3) {
			return
		}
	} else {
		if !runEach(reduced, 3) {
			return
		}
	}
}

func init() {
	p := &Property{
		ID:    "C03",
		Level: "exploration",
		Rule: "bounded-exhaustive: @each over literal / data int / data string / data struct arrays of every length 0..n (plus heterogeneous and non-array operands) and @for over every init/bound in -1..3, 4 comparison and 3 post forms, with every body sequence of <=3 items from an alphabet of text, loop-variable and loop.* prints, @break, @continue, @breakIf/@continueIf and @if/@elseif/@else blocks holding them, and nested @each loops (with their own loop.*, break/continue and @else), with/without @else (also @break/@continue inside @else), alone and inside an outer loop that prints its own metadata around it.  [as built: @for bounds also held in variables (assigned in the template, data ints, data floats) that are read again after the loop, the loop being entered twice by an outer loop]" +
			"Programs whose reference evaluation exceeds 40 passes are skipped and counted. Non-trivial: the program contains a control directive, an @else, or nested loops",
		Bounds: func(tier string) map[string]any {
			a, r := c03Alphabet(false)
			fa, fr := c03Alphabet(true)
			if tier == "thorough" {
				return map[string]any{"array_len": 5, "body_items": 3, "each_alphabet": len(a), "each_len3_alphabet": r + 22, "for_alphabet": len(fa), "for_len3_alphabet": fr}
			}
			return map[string]any{"array_len": 4, "body_items": 3, "each_alphabet": len(a), "each_len3_alphabet": r, "for_alphabet": len(fa), "for_len2_alphabet": fr}
		},
		Assume: []string{"`loop` inside @for bodies, break/continue outside any loop and variables assigned in one pass and read in the next are not pinned down by the statement and stay outside the alphabet"},
		Run:    c03Run,
	}
	registerTyped(p, c03Check)
}
