package main

import (
	"math"
	"strconv"
	"strings"
)

// RefTW expressions. An expression case is a *token list* (never a string that the model
// lexes): the harness prints it with some layout, the model groups it with the precedence
// table quoted in property C01 and evaluates the resulting tree.

// Tok kinds: "lit" (V set, Src = literal text), "id" (Src = name), "op" (Src = operator or
// punctuation: + - * / % == != < > <= >= ? : ( ) [ ] , . ! ++ -- { }).
type Tok struct {
	K   string `json:"k"`
	Src string `json:"s"`
	V   *Val   `json:"v,omitempty"`
}

func tLit(v Val) Tok {
	src := v.Lit()
	if (v.K == VInt && v.I < 0) || (v.K == VFloat && v.F < 0) {
		panic("harness bug: negative literal token; use a prefix minus")
	}
	return Tok{K: "lit", Src: src, V: &v}
}
func tID(name string) Tok { return Tok{K: "id", Src: name} }
func tOp(op string) Tok   { return Tok{K: "op", Src: op} }

// Expr is a grouped expression tree.
type Expr struct {
	Op   string  // lit var neg not inc dec + - * / % == != < > <= >= ?: idx dot call arr obj
	V    Val     // lit
	Name string  // var name, property name, function name
	Kids []*Expr // operands; call: receiver then arguments; obj: values (Keys parallel)
	Keys []string
}

func (e *Expr) String() string {
	switch e.Op {
	case "lit":
		return e.V.Lit()
	case "badlit":
		return e.Name
	case "var":
		return e.Name
	case "neg":
		return "(-" + e.Kids[0].String() + ")"
	case "not":
		return "(!" + e.Kids[0].String() + ")"
	case "inc":
		return "(" + e.Kids[0].String() + "++)"
	case "dec":
		return "(" + e.Kids[0].String() + "--)"
	case "?:":
		return "(" + e.Kids[0].String() + " ? " + e.Kids[1].String() + " : " + e.Kids[2].String() + ")"
	case "idx":
		return e.Kids[0].String() + "[" + e.Kids[1].String() + "]"
	case "dot":
		return e.Kids[0].String() + "." + e.Name
	case "call":
		var a []string
		for _, k := range e.Kids[1:] {
			a = append(a, k.String())
		}
		return e.Kids[0].String() + "." + e.Name + "(" + strings.Join(a, ", ") + ")"
	case "arr":
		var a []string
		for _, k := range e.Kids {
			a = append(a, k.String())
		}
		return "[" + strings.Join(a, ", ") + "]"
	case "obj":
		var a []string
		for i, k := range e.Kids {
			a = append(a, e.Keys[i]+": "+k.String())
		}
		return "{" + strings.Join(a, ", ") + "}"
	}
	return "(" + e.Kids[0].String() + " " + e.Op + " " + e.Kids[1].String() + ")"
}

// Binding powers exactly as the statement lists them.
const (
	pLowest  = 0
	pTernary = 1
	pEq      = 2
	pCmp     = 3
	pAdd     = 4
	pMul     = 5
	pMember  = 6
	pPrefix  = 7
	pIndex   = 9
	pPostfix = 10
)

var refPrec = map[string]int{
	"?": pTernary, "==": pEq, "!=": pEq, "<": pCmp, ">": pCmp, "<=": pCmp, ">=": pCmp,
	"+": pAdd, "-": pAdd, "*": pMul, "/": pMul, "%": pMul, ".": pMember, "[": pIndex, "++": pPostfix, "--": pPostfix,
}

type grouper struct {
	toks  []Tok
	pos   int
	bad   bool
	prec  map[string]int // nil = the table of the statement
	right bool           // group binary operators of equal precedence to the right (non-triviality probe only)
}

func (g *grouper) peek() *Tok {
	if g.pos < len(g.toks) {
		return &g.toks[g.pos]
	}
	return nil
}

func (g *grouper) isOp(s string) bool {
	t := g.peek()
	return t != nil && t.K == "op" && t.Src == s
}

func (g *grouper) expect(s string) {
	if !g.isOp(s) {
		g.bad = true
		return
	}
	g.pos++
}

// group parses a complete token list; ok=false when the list is not a well-formed expression
// by this grammar (then the model takes no position).
func group(toks []Tok) (*Expr, bool) { return groupWith(toks, nil, false) }

// groupWith groups with a deliberately different table / associativity; used only to decide
// whether a case discriminates between groupings (non-triviality), never as an oracle.
func groupWith(toks []Tok, prec map[string]int, right bool) (*Expr, bool) {
	g := &grouper{toks: toks, prec: prec, right: right}
	e := g.expr(pLowest)
	if g.bad || e == nil || g.pos != len(toks) {
		return nil, false
	}
	return e, true
}

func (g *grouper) expr(min int) *Expr {
	t := g.peek()
	if t == nil {
		g.bad = true
		return nil
	}
	var left *Expr
	g.pos++
	switch {
	case t.K == "lit" && t.V == nil:
		left = &Expr{Op: "badlit", Name: t.Src} // integer literal outside int64
	case t.K == "lit":
		left = &Expr{Op: "lit", V: *t.V}
	case t.K == "id":
		left = &Expr{Op: "var", Name: t.Src}
	case t.K == "op" && t.Src == "-":
		left = &Expr{Op: "neg", Kids: []*Expr{g.expr(pPrefix)}}
	case t.K == "op" && t.Src == "!":
		left = &Expr{Op: "not", Kids: []*Expr{g.expr(pPrefix)}}
	case t.K == "op" && t.Src == "(":
		left = g.expr(pLowest)
		g.expect(")")
	case t.K == "op" && t.Src == "[":
		left = &Expr{Op: "arr"}
		for !g.isOp("]") && !g.bad {
			left.Kids = append(left.Kids, g.expr(pLowest))
			if g.isOp(",") {
				g.pos++
			} else {
				break
			}
		}
		g.expect("]")
	case t.K == "op" && t.Src == "{":
		left = &Expr{Op: "obj"}
		for !g.isOp("}") && !g.bad {
			k := g.peek()
			if k == nil || k.K != "id" {
				g.bad = true
				break
			}
			g.pos++
			g.expect(":")
			left.Keys = append(left.Keys, k.Src)
			left.Kids = append(left.Kids, g.expr(pLowest))
			if g.isOp(",") {
				g.pos++
			} else {
				break
			}
		}
		g.expect("}")
	default:
		g.bad = true
		return nil
	}
	for !g.bad {
		t := g.peek()
		if t == nil || t.K != "op" {
			break
		}
		tbl := refPrec
		if g.prec != nil {
			tbl = g.prec
		}
		p, ok := tbl[t.Src]
		if !ok || p <= min {
			break
		}
		g.pos++
		switch t.Src {
		case "?":
			c := g.expr(pTernary)
			g.expect(":")
			a := g.expr(pLowest)
			left = &Expr{Op: "?:", Kids: []*Expr{left, c, a}}
		case ".":
			n := g.peek()
			if n == nil || n.K != "id" {
				g.bad = true
				return nil
			}
			g.pos++
			if g.isOp("(") {
				g.pos++
				call := &Expr{Op: "call", Name: n.Src, Kids: []*Expr{left}}
				for !g.isOp(")") && !g.bad {
					call.Kids = append(call.Kids, g.expr(pLowest))
					if g.isOp(",") {
						g.pos++
					} else {
						break
					}
				}
				g.expect(")")
				left = call
			} else {
				left = &Expr{Op: "dot", Name: n.Src, Kids: []*Expr{left}}
			}
		case "[":
			i := g.expr(pLowest)
			g.expect("]")
			left = &Expr{Op: "idx", Kids: []*Expr{left, i}}
		case "++":
			left = &Expr{Op: "inc", Kids: []*Expr{left}}
		case "--":
			left = &Expr{Op: "dec", Kids: []*Expr{left}}
		default:
			rp := p // left to right among operators of equal precedence
			if g.right {
				rp = p - 1
			}
			r := g.expr(rp)
			left = &Expr{Op: t.Src, Kids: []*Expr{left, r}}
		}
	}
	return left
}

// ---------------------------------------------------------------------------------------------
// evaluation

const (
	sOK     = 0
	sErr    = 1 // the statement says: the render fails
	sUnspec = 2 // the statement takes no position
)

type Scope struct {
	vars  map[string]Val
	outer *Scope
}

func newScope(outer *Scope) *Scope { return &Scope{vars: map[string]Val{}, outer: outer} }

func (s *Scope) get(n string) (Val, bool) {
	for c := s; c != nil; c = c.outer {
		if v, ok := c.vars[n]; ok {
			return v, true
		}
	}
	return Val{}, false
}

// builtinRef, when set (C11), evaluates a built-in call in the model.
var builtinRef func(name string, recv Val, args []Val) (Val, int)

// evalExpr evaluates a complete expression. Only at the root may the status be sFloatStep; a
// float-step value that flows into another operator makes the whole result unspecified.
func evalExpr(e *Expr, sc *Scope) (Val, int) { return evalNode(e, sc) }

func evalSub(e *Expr, sc *Scope) (Val, int) {
	v, st := evalNode(e, sc)
	if st == sFloatStep {
		return v, sUnspec
	}
	return v, st
}

func evalNode(e *Expr, sc *Scope) (Val, int) {
	if e == nil {
		return Val{}, sUnspec
	}
	switch e.Op {
	case "lit":
		return e.V, sOK
	case "badlit":
		return Val{}, sErr // out-of-range integer literal
	case "var":
		if v, ok := sc.get(e.Name); ok {
			return v, sOK
		}
		return Val{}, sErr // unknown identifier
	case "arr":
		out := Val{K: VArr}
		for _, k := range e.Kids {
			v, st := evalSub(k, sc)
			if st != sOK {
				return Val{}, st
			}
			out.A = append(out.A, v)
		}
		return out, sOK
	case "obj":
		out := Val{K: VObj, O: map[string]Val{}}
		firstBad := sOK
		for i, k := range e.Kids {
			v, st := evalSub(k, sc)
			if st != sOK {
				if st == sUnspec {
					return Val{}, sUnspec
				}
				firstBad = sErr
				continue
			}
			out.O[e.Keys[i]] = v
		}
		if firstBad != sOK {
			return Val{}, sErr
		}
		return out, sOK
	case "neg":
		v, st := evalSub(e.Kids[0], sc)
		if st != sOK {
			return v, st
		}
		switch v.K {
		case VInt:
			return vInt(-v.I), sOK
		case VFloat:
			return vFloat(-v.F), sOK
		}
		return Val{}, sUnspec
	case "not":
		v, st := evalSub(e.Kids[0], sc)
		if st != sOK {
			return v, st
		}
		if v.K == VBool {
			return vBool(!v.B), sOK
		}
		return Val{}, sUnspec
	case "inc", "dec":
		v, st := evalSub(e.Kids[0], sc)
		if st != sOK {
			return v, st
		}
		d := int64(1)
		if e.Op == "dec" {
			d = -1
		}
		switch v.K {
		case VInt:
			return vInt(v.I + d), sOK
		case VFloat:
			ieee := v.F + float64(d)
			if v.F == math.Trunc(v.F) || decimalStep(v.F, ieee) == ieee {
				return vFloat(ieee), sOK // the IEEE result and the decimally exact result coincide
			}
			return vFloat(ieee), sFloatStep
		}
		return Val{}, sUnspec
	case "?:":
		c, st := evalSub(e.Kids[0], sc)
		if st != sOK {
			return c, st
		}
		if c.Truthy() {
			return evalNode(e.Kids[1], sc)
		}
		return evalNode(e.Kids[2], sc)
	case "idx":
		l, st := evalSub(e.Kids[0], sc)
		if st != sOK {
			return l, st
		}
		i, st := evalSub(e.Kids[1], sc)
		if st != sOK {
			return i, st
		}
		if l.K == VArr && i.K == VInt {
			if i.I >= 0 && i.I < int64(len(l.A)) {
				return l.A[i.I], sOK
			}
			return Val{}, sUnspec // out of range: nil or error, not pinned down
		}
		if l.K == VObj && i.K == VStr {
			return objGet(l, i.S)
		}
		return Val{}, sUnspec
	case "dot":
		l, st := evalSub(e.Kids[0], sc)
		if st != sOK {
			return l, st
		}
		if l.K == VObj {
			return objGet(l, e.Name)
		}
		return Val{}, sUnspec
	case "call":
		r, st := evalSub(e.Kids[0], sc)
		if st != sOK {
			return r, st
		}
		var args []Val
		for _, k := range e.Kids[1:] {
			a, st := evalSub(k, sc)
			if st != sOK {
				return a, st
			}
			args = append(args, a)
		}
		if builtinRef != nil {
			return builtinRef(e.Name, r, args)
		}
		return Val{}, sUnspec
	}
	// binary
	l, st := evalSub(e.Kids[0], sc)
	if st != sOK {
		return l, st
	}
	r, st := evalSub(e.Kids[1], sc)
	if st != sOK {
		return r, st
	}
	return evalBinary(e.Op, l, r)
}

// decimalStep rounds the IEEE result of x±1 to the number of decimals x is written with.
func decimalStep(x, ieee float64) float64 {
	str := strconv.FormatFloat(x, 'f', -1, 64)
	dec := 0
	if i := strings.IndexByte(str, '.'); i >= 0 {
		dec = len(str) - i - 1
	}
	r, _ := strconv.ParseFloat(strconv.FormatFloat(ieee, 'f', dec, 64), 64)
	return r
}

// sFloatStep marks the value of ++/-- on a float with a fractional part: the admissible set is
// {IEEE x±1, the decimally exact result} (the repository's suite pins 4.4-- = 3.4).
const sFloatStep = 3

func objGet(o Val, k string) (Val, int) {
	if v, ok := o.O[k]; ok {
		return v, sOK
	}
	if k != "" {
		// a struct field is also reachable with its first letter lower-cased
		up := strings.ToUpper(k[:1]) + k[1:]
		if v, ok := o.O[up]; ok && up != k {
			return v, sOK
		}
	}
	return Val{}, sErr // absent property
}

func evalBinary(op string, l, r Val) (Val, int) {
	if l.K != r.K {
		return Val{}, sErr // mixed operand types
	}
	switch l.K {
	case VInt:
		a, b := l.I, r.I
		switch op {
		case "+":
			return vInt(a + b), sOK
		case "-":
			return vInt(a - b), sOK
		case "*":
			return vInt(a * b), sOK
		case "/":
			if b == 0 {
				return Val{}, sErr
			}
			if a == math.MinInt64 && b == -1 {
				return vInt(a), sOK // wrapping
			}
			return vInt(a / b), sOK
		case "%":
			if b == 0 {
				return Val{}, sErr
			}
			if b == -1 {
				return vInt(0), sOK
			}
			return vInt(a % b), sOK
		case "==":
			return vBool(a == b), sOK
		case "!=":
			return vBool(a != b), sOK
		case "<":
			return vBool(a < b), sOK
		case ">":
			return vBool(a > b), sOK
		case "<=":
			return vBool(a <= b), sOK
		case ">=":
			return vBool(a >= b), sOK
		}
	case VFloat:
		a, b := l.F, r.F
		switch op {
		case "+":
			return vFloat(a + b), sOK
		case "-":
			return vFloat(a - b), sOK
		case "*":
			return vFloat(a * b), sOK
		case "/":
			if b == 0 {
				return Val{}, sUnspec
			}
			return vFloat(a / b), sOK
		case "==":
			return vBool(a == b), sOK
		case "!=":
			return vBool(a != b), sOK
		case "<":
			return vBool(a < b), sOK
		case ">":
			return vBool(a > b), sOK
		case "<=":
			return vBool(a <= b), sOK
		case ">=":
			return vBool(a >= b), sOK
		}
		return Val{}, sUnspec // % on floats
	case VStr:
		switch op {
		case "+":
			return vStr(l.S + r.S), sOK
		case "==":
			return vBool(l.S == r.S), sOK
		case "!=":
			return vBool(l.S != r.S), sOK
		}
		return Val{}, sUnspec
	}
	return Val{}, sUnspec // operators on bool / nil / array / object
}

// ---------------------------------------------------------------------------------------------
// layouts: token list -> source text

// needSpace reports whether two adjacent tokens would fuse when written without a separator.
func needSpace(a, b string) bool {
	if a == "" || b == "" {
		return false
	}
	x, y := a[len(a)-1], b[0]
	alnum := func(c byte) bool {
		return c == '_' || (c >= '0' && c <= '9') || (c >= 'a' && c <= 'z') || (c >= 'A' && c <= 'Z')
	}
	if alnum(x) && alnum(y) {
		return true
	}
	switch {
	case x == '-' && y == '-', x == '+' && y == '+':
		return true
	case y == '=' && (x == '=' || x == '!' || x == '<' || x == '>'):
		return true
	case x == '.' && y >= '0' && y <= '9', y == '.' && x >= '0' && x <= '9' && len(b) > 1:
		return true
	case x == '{' && y == '{', x == '}' && y == '}':
		return true
	case x == '-' && y == '-':
		return true
	}
	return false
}

// layout 0: no whitespace where legal; 1: single spaces; 2: newlines and tabs; 3: mixed.
func renderToks(toks []Tok, layout int) string {
	var sb strings.Builder
	for i, t := range toks {
		if i > 0 {
			prev := toks[i-1].Src
			switch layout {
			case 0:
				if needSpace(prev, t.Src) {
					sb.WriteByte(' ')
				}
			case 1:
				if !(t.Src == "." || prev == "." || t.Src == "(" && i > 0 && toks[i-1].K == "id" && i > 1 && toks[i-2].Src == ".") {
					sb.WriteByte(' ')
				} else if needSpace(prev, t.Src) {
					sb.WriteByte(' ')
				}
			case 2:
				if i%2 == 0 {
					sb.WriteString("\n\t")
				} else {
					sb.WriteString(" \n")
				}
			default:
				switch i % 3 {
				case 0:
					sb.WriteString("  ")
				case 1:
					if needSpace(prev, t.Src) {
						sb.WriteByte(' ')
					}
				default:
					sb.WriteString("\t\r\n ")
				}
			}
		}
		sb.WriteString(t.Src)
	}
	return sb.String()
}

// toToks prints a tree as a token list with the parentheses required by the precedence table
// (minimal) or around every operator node (full).
func toToks(e *Expr, full bool) []Tok { return toToksExtra(e, full, nil) }

// toToksExtra additionally puts one redundant pair of parentheses around the node extra.
func toToksExtra(e *Expr, full bool, extra *Expr) []Tok {
	var out []Tok
	var rec func(e *Expr, wrap bool)
	prec := func(e *Expr) int {
		switch e.Op {
		case "lit", "var", "arr", "obj":
			return 11
		case "neg", "not":
			return pPrefix
		case "inc", "dec":
			return pPostfix
		case "?:":
			return pTernary
		case "idx":
			return pIndex
		case "dot", "call":
			return pMember
		}
		return refPrec[e.Op]
	}
	rec = func(e *Expr, wrap bool) {
		if e == extra && !wrap {
			wrap = true
		}
		if wrap {
			out = append(out, tOp("("))
		}
		p := prec(e)
		switch e.Op {
		case "lit":
			if (e.V.K == VInt && e.V.I < 0) || (e.V.K == VFloat && e.V.F < 0) {
				panic("harness bug: negative literal in a tree; use neg")
			}
			v := e.V
			out = append(out, Tok{K: "lit", Src: v.Lit(), V: &v})
		case "var":
			out = append(out, tID(e.Name))
		case "neg", "not":
			op := "-"
			if e.Op == "not" {
				op = "!"
			}
			out = append(out, tOp(op))
			k := e.Kids[0]
			rec(k, full && prec(k) < 11 || prec(k) < pPrefix)
		case "inc", "dec":
			k := e.Kids[0]
			rec(k, full && prec(k) < 11 || prec(k) < pPostfix)
			op := "++"
			if e.Op == "dec" {
				op = "--"
			}
			out = append(out, tOp(op))
		case "?:":
			c, a, b := e.Kids[0], e.Kids[1], e.Kids[2]
			rec(c, full && prec(c) < 11 || prec(c) <= pTernary)
			out = append(out, tOp("?"))
			rec(a, full && prec(a) < 11 || prec(a) <= pTernary)
			out = append(out, tOp(":"))
			rec(b, full && prec(b) < 11)
		case "idx":
			l := e.Kids[0]
			rec(l, full && prec(l) < 11 || prec(l) < pIndex)
			out = append(out, tOp("["))
			rec(e.Kids[1], false)
			out = append(out, tOp("]"))
		case "dot", "call":
			l := e.Kids[0]
			rec(l, full && prec(l) < 11 || prec(l) < pMember)
			out = append(out, tOp("."), tID(e.Name))
			if e.Op == "call" {
				out = append(out, tOp("("))
				for i, k := range e.Kids[1:] {
					if i > 0 {
						out = append(out, tOp(","))
					}
					rec(k, false)
				}
				out = append(out, tOp(")"))
			}
		case "arr":
			out = append(out, tOp("["))
			for i, k := range e.Kids {
				if i > 0 {
					out = append(out, tOp(","))
				}
				rec(k, false)
			}
			out = append(out, tOp("]"))
		case "obj":
			out = append(out, tOp("{"))
			for i, k := range e.Kids {
				if i > 0 {
					out = append(out, tOp(","))
				}
				out = append(out, tID(e.Keys[i]), tOp(":"))
				rec(k, false)
			}
			out = append(out, tOp("}"))
		default:
			l, r := e.Kids[0], e.Kids[1]
			rec(l, full && prec(l) < 11 || prec(l) < p)
			out = append(out, tOp(e.Op))
			rec(r, full && prec(r) < 11 || prec(r) <= p)
		}
		if wrap {
			out = append(out, tOp(")"))
		}
	}
	rec(e, false)
	return out
}

func sameTree(a, b *Expr) bool {
	if a == nil || b == nil {
		return a == b
	}
	if a.Op != b.Op || a.Name != b.Name || len(a.Kids) != len(b.Kids) {
		return false
	}
	if a.Op == "lit" && !a.V.Equal(b.V) {
		return false
	}
	for i := range a.Keys {
		if a.Keys[i] != b.Keys[i] {
			return false
		}
	}
	for i := range a.Kids {
		if !sameTree(a.Kids[i], b.Kids[i]) {
			return false
		}
	}
	return true
}
