package main

import (
	"fmt"
	"sort"
	"strings"
)

// C04 — variables are block scoped, type stable, and `loop` is reserved.

type c04Case struct {
	Ops  []int `json:"ops"`  // indices into c04Ops
	Data int   `json:"data"` // index into c04DataMaps
	Wide bool  `json:"wide,omitempty"`
	File bool  `json:"file,omitempty"` // the program is a template file rendered twice through Template.String, with renders of another page (which binds the same names) in between
}

type c04Op struct {
	name string
	kind string // assign read if iffalse else each for close
	v    string // variable name
	typ  string // value type for assign / element type for each
}

func c04Ops(wide bool) []c04Op {
	var ops []c04Op
	ops = append(ops, c04Op{"read(x)", "read", "x", ""}, c04Op{"read(y)", "read", "y", ""})
	types := []string{VInt, VStr, VNil}
	if wide {
		types = []string{VInt, VStr, VNil, VFloat, VBool, VArr}
	}
	for _, n := range []string{"x", "y"} {
		for _, t := range types {
			ops = append(ops, c04Op{"assign(" + n + "," + t + ")", "assign", n, t})
		}
	}
	ops = append(ops, c04Op{"close", "close", "", ""})
	ops = append(ops, c04Op{"if(true)", "if", "", ""}, c04Op{"if(false)", "iffalse", "", ""}, c04Op{"else", "else", "", ""}, c04Op{"elseif(true)", "elseif", "", ""}, c04Op{"elseif(false)", "elseiffalse", "", ""})
	for _, n := range []string{"x", "y", "v"} {
		for _, t := range []string{VInt, VStr} {
			ops = append(ops, c04Op{"each(" + n + ":" + t + ")", "each", n, t})
		}
	}
	for _, n := range []string{"x", "y", "i"} {
		ops = append(ops, c04Op{"for(" + n + ")", "for", n, ""})
	}
	ops = append(ops, c04Op{"assign(loop,int)", "assign", "loop", VInt})
	// loops with absent clauses (the body ends with @break, so there is exactly one pass)
	ops = append(ops, c04Op{"for(;;)", "forbare", "", ""}, c04Op{"for(;x!=nil;)", "forcond", "x", ""})
	// values taken from other variables (a copy, a postfix step and a loop counter never write through to their source)
	ops = append(ops, c04Op{"copy(y=x)", "copy", "y", "x"}, c04Op{"copy(x=y)", "copy", "x", "y"},
		c04Op{"print(x++)", "step", "x", "inc"}, c04Op{"print(y--)", "step", "y", "dec"},
		c04Op{"for(i=x;up)", "forfrom", "x", "inc"}, c04Op{"for(i=y;down)", "forfrom", "y", "dec"})
	// a loop variable over elements of two types (the second element meets the type rule like the first) and over nil elements
	ops = append(ops, c04Op{"each(x:str,int)", "each", "x", "mixed"}, c04Op{"each(x:nil)", "each", "x", VNil})
	// a string grown from its own value (a copy taken earlier and the enclosing block's binding keep the old text)
	ops = append(ops, c04Op{"grow(x)", "grow", "x", ""}, c04Op{"grow(y)", "grow", "y", ""})
	// loops that never run a pass: what follows is their @else block, which is a block of the loop construct
	ops = append(ops, c04Op{"each(v in [])@else", "eachelse", "v", ""}, c04Op{"for(i;never)@else", "forelse", "i", ""})
	return ops
}

func c04DataMaps() []map[string]Val {
	var out []map[string]Val
	opts := []*Val{nil, {K: VInt, I: 100}, {K: VStr, S: "dx"}}
	for _, x := range opts {
		for _, y := range opts {
			m := map[string]Val{}
			if x != nil {
				m["x"] = *x
			}
			if y != nil {
				v := *y
				if v.K == VStr {
					v.S = "dy"
				} else {
					v.I = 200
				}
				m["y"] = v
			}
			out = append(out, m)
		}
	}
	out = append(out, map[string]Val{"loop": vInt(1)}, map[string]Val{"x": vNil()}, map[string]Val{"x": vArr(vInt(1))},
		map[string]Val{"x": vFloat(2.5), "y": vFloat(7.5)})
	return out
}

func c04Value(t string, pos int) *Expr {
	switch t {
	case VInt:
		return eLit(vInt(int64(10 + pos)))
	case VStr:
		return eLit(vStr(fmt.Sprintf("s%d", pos)))
	case VFloat:
		return eLit(vFloat(float64(pos) + 0.5))
	case VBool:
		return eLit(vBool(pos%2 == 0))
	case VArr:
		return &Expr{Op: "arr", Kids: []*Expr{eLit(vInt(int64(pos)))}}
	}
	return eLit(vNil())
}

// c04Build turns an operation sequence into a template tree; ok=false when the sequence is not
// well nested (close/else without a matching open block, nesting deeper than maxDepth).
func c04Build(cs c04Case, maxDepth int) (tree []*Node, ok bool) {
	ops := c04Ops(cs.Wide)
	type frame struct {
		node    *Node
		inElse  bool
		isIf    bool
		bare    bool
		collect *[]*Node
		// when set, statements go to elseIfOf.ElseIfs[elseIfIdx].Body
		elseIfOf  *Node
		elseIfIdx int
	}
	root := []*Node{}
	stack := []frame{{collect: &root}}
	emit := func(n *Node) {
		f := &stack[len(stack)-1]
		if f.collect == nil && f.elseIfOf != nil {
			f.elseIfOf.ElseIfs[f.elseIfIdx].Body = append(f.elseIfOf.ElseIfs[f.elseIfIdx].Body, n)
			return
		}
		*f.collect = append(*f.collect, n)
	}
	for pos, ix := range cs.Ops {
		op := ops[ix]
		switch op.kind {
		case "read":
			emit(nText("[" + op.v + "="))
			emit(nPrint(eVar(op.v)))
			emit(nText("]"))
		case "assign":
			emit(nAssign(op.v, c04Value(op.typ, pos)))
		case "copy":
			emit(nAssign(op.v, eVar(op.typ)))
		case "grow":
			emit(nAssign(op.v, eBin("+", eVar(op.v), eLit(vStr("g")))))
		case "step":
			emit(nText("[" + op.v + op.typ + "="))
			emit(nPrint(&Expr{Op: op.typ, Kids: []*Expr{eVar(op.v)}}))
			emit(nText("]"))
		case "forfrom":
			if len(stack) > maxDepth {
				return nil, false
			}
			cmp, off := "<", "+"
			if op.typ == "dec" {
				cmp, off = ">", "-"
			}
			n := &Node{K: "for", Init: nAssign("i", eVar(op.v)), Cond: eBin(cmp, eVar("i"), eBin(off, eVar(op.v), eLit(vInt(2)))),
				Post: nPrint(&Expr{Op: op.typ, Kids: []*Expr{eVar("i")}})}
			emit(nText("("))
			emit(n)
			stack = append(stack, frame{node: n, collect: &n.Body})
			emit(nText("G:"))
		case "close":
			if len(stack) == 1 {
				return nil, false
			}
			if stack[len(stack)-1].bare {
				emit(&Node{K: "break"})
			}
			stack = stack[:len(stack)-1]
			emit(nText(")"))
		case "if", "iffalse":
			if len(stack) > maxDepth {
				return nil, false
			}
			n := &Node{K: "if", E: eLit(vBool(op.kind == "if"))}
			emit(nText("("))
			emit(n)
			stack = append(stack, frame{node: n, isIf: true, collect: &n.Body})
			emit(nText("T:"))
		case "else":
			f := &stack[len(stack)-1]
			if !f.isIf || f.inElse {
				return nil, false
			}
			f.inElse = true
			f.node.HasElse = true
			f.elseIfOf = nil
			f.collect = &f.node.Else
			emit(nText("E:"))
		case "elseif", "elseiffalse":
			f := &stack[len(stack)-1]
			if !f.isIf || f.inElse {
				return nil, false
			}
			f.node.ElseIfs = append(f.node.ElseIfs, ElseIf{Cond: eLit(vBool(op.kind == "elseif"))})
			// the slice may be re-allocated by a later append: collect through an index-stable pointer
			idx := len(f.node.ElseIfs) - 1
			nd := f.node
			f.collect = nil
			f.elseIfOf, f.elseIfIdx = nd, idx
			emit(nText("EI:"))
		case "each":
			if len(stack) > maxDepth {
				return nil, false
			}
			arr := &Expr{Op: "arr", Kids: []*Expr{c04Value(op.typ, 70+pos), c04Value(op.typ, 80+pos)}}
			if op.typ == "mixed" {
				arr = &Expr{Op: "arr", Kids: []*Expr{c04Value(VStr, 70+pos), c04Value(VInt, 80+pos)}}
			}
			n := &Node{K: "each", Name: op.v, E: arr}
			emit(nText("("))
			emit(n)
			stack = append(stack, frame{node: n, collect: &n.Body})
			emit(nText("L:"))
		case "eachelse", "forelse":
			if len(stack) > maxDepth {
				return nil, false
			}
			var n *Node
			if op.kind == "eachelse" {
				n = &Node{K: "each", Name: op.v, E: &Expr{Op: "arr"}}
			} else {
				n = &Node{K: "for", Init: nAssign(op.v, eLit(vInt(0))), Cond: eBin("<", eVar(op.v), eLit(vInt(0))),
					Post: nPrint(&Expr{Op: "inc", Kids: []*Expr{eVar(op.v)}})}
			}
			n.Body = []*Node{nText("never")}
			n.HasElse = true
			emit(nText("("))
			emit(n)
			stack = append(stack, frame{node: n, inElse: true, collect: &n.Else})
			emit(nText("N:"))
		case "forbare", "forcond":
			if len(stack) > maxDepth {
				return nil, false
			}
			n := &Node{K: "for"}
			if op.kind == "forcond" {
				n.Cond = eBin("==", eLit(vInt(1)), eLit(vInt(1)))
			}
			emit(nText("("))
			emit(n)
			stack = append(stack, frame{node: n, collect: &n.Body, bare: true})
			emit(nText("B:"))
		case "for":
			if len(stack) > maxDepth {
				return nil, false
			}
			n := &Node{K: "for", Init: nAssign(op.v, eLit(vInt(0))), Cond: eBin("<", eVar(op.v), eLit(vInt(2))),
				Post: nPrint(&Expr{Op: "inc", Kids: []*Expr{eVar(op.v)}})}
			emit(nText("("))
			emit(n)
			stack = append(stack, frame{node: n, collect: &n.Body})
			emit(nText("F:"))
		}
	}
	// open blocks are closed at the end; then both names are read once more from the template scope
	for len(stack) > 1 {
		if stack[len(stack)-1].bare {
			emit(&Node{K: "break"})
		}
		stack = stack[:len(stack)-1]
		emit(nText(")"))
	}
	return root, true
}

// c04WritesCounter: some @for counter is written by an assignment that follows the loop header
// (such a program may legitimately run forever; it is only skipped when the reference has no verdict).
func c04WritesCounter(cs c04Case) bool {
	ops := c04Ops(cs.Wide)
	counters := map[string]bool{}
	for _, ix := range cs.Ops {
		op := ops[ix]
		switch op.kind {
		case "for":
			if counters[op.v] {
				return true // a second loop over the same counter re-initialises it
			}
			counters[op.v] = true
		case "forfrom":
			if counters["i"] {
				return true
			}
			counters["i"] = true
			counters[op.v] = true // the bound is read from this variable in every pass
		case "assign", "copy", "grow":
			if counters[op.v] {
				return true
			}
		}
	}
	return false
}

// c04FileOutcome renders src as a page of a loaded directory: another page that binds the names x, y, i, v at its
// top level is rendered before and between two renders of the page; the first outcome that does not conform is returned.
func c04FileOutcome(src string, data map[string]Val, exp Expect) Outcome {
	t := Tree{Dir: "t", Ext: ".tw", Files: map[string]string{"index.tw": src, "leaker.tw": `{{ x = "leak" }}{{ y = 1.5 }}{{ i = "s" }}{{ v = true }}[{{ x }}]`}}
	t.write()
	tpl, lo := t.load()
	if lo.Kind != KOut {
		return lo
	}
	var d1, d2 map[string]any
	if len(data) > 0 {
		d1, d2 = dataMap(data), dataMap(data)
	} else {
		d2 = map[string]any{} // no data: once as nil, once as an empty map
	}
	render(tpl, "leaker", nil)
	render(tpl, "leaker", map[string]any{})
	o1 := render(tpl, "index", d1)
	if good, _ := conforms(exp, o1); !good {
		return o1
	}
	render(tpl, "leaker", d1)
	render(tpl, "leaker", d2)
	return render(tpl, "index", d2)
}

func c04Check(cs c04Case) (ok bool, sig, expected, observed string) {
	tree, valid := c04Build(cs, 8)
	if !valid {
		return true, "", "invalid", "invalid"
	}
	data := c04DataMaps()[cs.Data]
	src := printNodes(tree)
	out, st := evalTemplate(tree, data)
	if refHorizonHit || (st == sUnspec && c04WritesCounter(cs)) {
		return true, "", "skipped", "skipped" // a loop body rewrites its own counter: the program may not terminate
	}
	exp := expectOf(out, st)
	var o Outcome
	if cs.File {
		o = c04FileOutcome(src, data, exp)
	} else {
		o = runString(src, dataMap(data))
	}
	good, why := conforms(exp, o)
	if cs.File {
		why += "/template-file"
	}
	if good {
		return true, "", exp.String(), o.String()
	}
	if o.Kind == KPanic || o.Kind == KHang {
		return false, o.Kind + "@" + o.Site, exp.String() + " for " + src, o.String()
	}
	ops := c04Ops(cs.Wide)
	set := map[string]bool{}
	for _, ix := range cs.Ops {
		k := ops[ix].kind
		if ops[ix].v == "loop" {
			k = "assign-loop"
		}
		if k != "close" {
			set[k] = true
		}
	}
	var ks []string
	for k := range set {
		ks = append(ks, k)
	}
	sort.Strings(ks)
	if _, hasLoop := data["loop"]; hasLoop {
		ks = append(ks, "data-loop")
	}
	return false, why + "/" + strings.Join(ks, "+"), exp.String() + " for " + src + fmt.Sprintf(" data=%v", data), o.String()
}

func c04Run(c *Ctx) {
	order := int64(0)
	run := func(maxLen, maxDepth int, wide bool, datas []int) bool {
		ops := c04Ops(wide)
		for k := 0; k <= maxLen; k++ {
			ok := seqEnum(c, len(ops), k, func(idx []int) bool {
				if c.Expired() {
					return false
				}
				cs := c04Case{Ops: append([]int{}, idx...), Wide: wide}
				tree, valid := c04Build(cs, maxDepth)
				if !valid {
					return true
				}
				// canonical form: a sequence must not end with a close (auto-closing makes it a duplicate)
				if k > 0 && ops[idx[k-1]].kind == "close" {
					return true
				}
				src := printNodes(tree)
				// non-trivial: shadowing, a read after a closed block, a cross-type assignment, a loop variable colliding with a visible name
				reads, assigns, blocks := 0, 0, 0
				for _, ix := range idx {
					switch ops[ix].kind {
					case "read":
						reads++
					case "assign", "grow":
						assigns++
					case "if", "iffalse", "each", "for", "forbare", "forcond", "eachelse", "forelse":
						blocks++
					}
				}
				nontriv := blocks > 0 && (reads > 0 || assigns > 0)
				if k <= 2 && !wide {
					// the same programs as template files (no data / x pre-bound), rendered repeatedly next to another page
					for _, d := range []int{0, 3} {
						fc := cs
						fc.Data, fc.File = d, true
						c.Trace(fc)
						if ok, sig, e, ob := c04Check(fc); !ok {
							c.Report(sig, int64(k)*1000000+order%1000000, fc, e, ob, "")
						}
						c.Evals(1)
						c.Count("template_file_cases", 1)
					}
				}
				for _, d := range datas {
					cs.Data = d
					order++
					c.Trace(cs)
					data := c04DataMaps()[d]
					out, st := evalTemplate(tree, data)
					if refHorizonHit || (st == sUnspec && c04WritesCounter(cs)) {
						c.Count("skipped_nonterminating_within_horizon", 1)
						continue
					}
					exp := expectOf(out, st)
					o := runString(src, dataMap(data))
					c.Evals(1)
					c.Case(nontriv)
					c.OutcomeClass(o.Kind)
					if order%499 == 1 {
						c.Sample(map[string]any{"src": src, "data": data, "expected": exp.String()})
					}
					if good, _ := conforms(exp, o); !good {
						_, sig, e, ob := c04Check(cs)
						c.Report(sig, int64(k)*1000000+order%1000000, cs, e, ob, "")
					}
				}
				return true
			})
			if !ok {
				return false
			}
		}
		return true
	}
	all := make([]int, len(c04DataMaps()))
	for i := range all {
		all[i] = i
	}
	if c.Thorough() {
		if !run(4, 3, false, all) {
			return
		}
		if !run(5, 3, false, []int{0, 9}) {
			return
		}
		run(4, 3, true, []int{0, 4, 8})
	} else {
		run(4, 2, false, all)
	}
}

func init() {
	p := &Property{
		ID:    "C04",
		Level: "exploration",
		Rule: "bounded-exhaustive operation sequences: every well-nested sequence of <=k operations from {assign(x|y, int|str|nil), assign(loop), read(x), read(y), open @if(true), open @if(false), switch to @else, open @each with loop variable x|y|v over int|str elements, open @for with variable x|y|i, close} up to a nesting depth, times every data map that pre-binds x and y to nothing / an int / a string (plus maps with loop, nil and an array); the template prints a marker and the value at every read.  [as built: plus copy(y=x), copy(x=y), print(x++), print(y--), grow(x) / grow(y) = x = x + \"g\", for(i=x;up), for(i=y;down) (values taken from other variables never write through), @each over an empty array / @for whose condition is false at entry with what follows standing in their @else block, a float data map, and a template-file leg: every sequence of <=2 ops rendered twice through Template.String next to a page binding the same names]" +
			"The reference keeps a stack of block scopes. Non-trivial: the sequence opens a block and reads or assigns inside/after it",
		Bounds: func(tier string) map[string]any {
			if tier == "thorough" {
				return map[string]any{"ops": len(c04Ops(false)), "max_len_all_data_maps": 4, "max_len_2_data_maps": 5, "depth": 3, "wide_type_alphabet_len": 4, "data_maps": len(c04DataMaps())}
			}
			return map[string]any{"ops": len(c04Ops(false)), "max_len": 4, "depth": 2, "data_maps": len(c04DataMaps())}
		},
		Assume: []string{
			"a binding created by an assignment in one pass of a loop and used in a later pass (before being re-assigned there) is not pinned down by the statement: the reference returns Unspecified for such reads",
			"component scopes are exercised by C07",
		},
		Run: c04Run,
	}
	registerTyped(p, c04Check)
}
