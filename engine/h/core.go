package main

import (
	"encoding/json"
	"fmt"
	"os"
	"regexp"
	"runtime"
	"sort"
	"strconv"
	"strings"
	"time"

	textwire "github.com/textwire/textwire/v2"
	"github.com/textwire/textwire/v2/fail"
	rt "github.com/textwire/textwire/v2/zzverifrt"
)

// ---------------------------------------------------------------------------------------------
// Outcome classes (DESIGN.md 2.4)

const (
	KOut   = "out"
	KErr   = "err"
	KPanic = "panic"
	KHang  = "hang"
)

type Outcome struct {
	Kind string `json:"kind"`
	Out  string `json:"out,omitempty"`
	Msg  string `json:"msg,omitempty"`  // message without the meta prefix
	Line int    `json:"line,omitempty"` // -1 = unknown
	Path string `json:"path,omitempty"`
	Site string `json:"site,omitempty"` // panic: innermost textwire frame + class; hang: tick site
	Raw  string `json:"raw,omitempty"`  // full error text
}

func (o Outcome) String() string {
	switch o.Kind {
	case KOut:
		return fmt.Sprintf("Out(%q)", o.Out)
	case KErr:
		return fmt.Sprintf("Err(line=%d path=%q msg=%q)", o.Line, o.Path, o.Msg)
	case KPanic:
		return fmt.Sprintf("Panic(%s: %s)", o.Site, o.Msg)
	case KHang:
		return fmt.Sprintf("Hang(%s)", o.Site)
	}
	return "?"
}

// Fuel limit F: no legitimate case of any alphabet needs more than ~10^4 ticks.
const fuelF = 200_000

var siteTable []struct {
	ID   int    `json:"id"`
	Kind string `json:"kind"`
	Pos  string `json:"pos"`
	Func string `json:"func"`
}

func siteName(id int) string {
	if id >= 0 && id < len(siteTable) {
		s := siteTable[id]
		return s.Func + "@" + s.Kind
	}
	return fmt.Sprintf("site%d", id)
}

var errMetaRe = regexp.MustCompile(`(?s)^\[Textwire ERROR(?: in (.*?))?:(\d+)\]:\n(.*)$`)

// parseErr splits the text of a Textwire error into path, line and message.
func parseErr(err error) Outcome {
	s := err.Error()
	o := Outcome{Kind: KErr, Raw: s, Line: -1, Msg: s}
	if m := errMetaRe.FindStringSubmatch(s); m != nil {
		o.Path = m[1]
		o.Line, _ = strconv.Atoi(m[2])
		o.Msg = m[3]
	}
	return o
}

func failOutcome(e *fail.Error) Outcome {
	return Outcome{Kind: KErr, Raw: e.String(), Line: int(e.Line()), Path: e.Filepath(), Msg: e.Message()}
}

// guard runs f under fuel and panic capture. A fuel hit is re-run once with 10×F before the
// verdict Hang is given (f must be re-executable).
func guard(f func() Outcome) (o Outcome) {
	o = guard1(f, fuelF)
	if o.Kind == KHang {
		// confirmation run at 10×F with per-site profiling: the verdict names the hottest site
		rt.SiteCounts = make([]int64, len(siteTable)+1)
		o = guard1(f, 10*fuelF)
		rt.SiteCounts = nil
	}
	return o
}

func guard1(f func() Outcome, limit int64) (o Outcome) {
	rt.Fuel = 0
	rt.FuelLimit = limit
	defer func() {
		rt.FuelLimit = 1 << 62
		if r := recover(); r != nil {
			if fe, ok := r.(rt.FuelExhausted); ok {
				o = Outcome{Kind: KHang, Site: siteName(hotSite(fe.Site))}
				return
			}
			o = Outcome{Kind: KPanic, Msg: fmt.Sprint(r), Site: panicSite(r)}
		}
	}()
	return f()
}

// hotSite names the spinning loop of a hang: the loop site with the highest tick count of the
// profiled confirmation run (a function site only when no loop accounts for 2% of the fuel:
// runaway recursion).
func hotSite(fallback int) int {
	if rt.SiteCounts == nil {
		return fallback
	}
	best, bestLoop := -1, -1
	var total int64
	for i, n := range rt.SiteCounts {
		total += n
		if best < 0 || n > rt.SiteCounts[best] {
			best = i
		}
		if i < len(siteTable) && siteTable[i].Kind != "func" && (bestLoop < 0 || n > rt.SiteCounts[bestLoop]) {
			bestLoop = i
		}
	}
	if bestLoop >= 0 && rt.SiteCounts[bestLoop]*50 >= total {
		return bestLoop
	}
	if best >= 0 {
		return best
	}
	return fallback
}

var digitsRe = regexp.MustCompile(`[0-9]+`)

func panicSite(r any) string {
	class := fmt.Sprint(r)
	if e, ok := r.(runtime.Error); ok {
		class = e.Error()
	}
	class = digitsRe.ReplaceAllString(class, "N")
	if len(class) > 60 {
		class = class[:60]
	}
	pcs := make([]uintptr, 64)
	n := runtime.Callers(3, pcs)
	frames := runtime.CallersFrames(pcs[:n])
	fn := "?"
	for {
		fr, more := frames.Next()
		if strings.Contains(fr.Function, "textwire/textwire/v2") && !strings.Contains(fr.Function, "zzverifrt") {
			fn = strings.TrimPrefix(fr.Function, "github.com/textwire/textwire/v2")
			fn = strings.TrimPrefix(fn, "/")
			break
		}
		if !more {
			break
		}
	}
	return fn + ": " + class
}

// runString is the string-API seam: one fresh root state, EvaluateString, classified outcome.
func runString(src string, data map[string]any) Outcome {
	return guard(func() Outcome {
		rt.ResetRoot()
		out, err := textwire.EvaluateString(src, data)
		if err != nil {
			o := parseErr(err)
			o.Out = out
			return o
		}
		return Outcome{Kind: KOut, Out: out}
	})
}

// ---------------------------------------------------------------------------------------------
// Expectations (three-valued oracle, DESIGN.md 2.5)

const (
	EValue  = "value"
	EError  = "error"
	EUnspec = "unspecified"
	ESet    = "set"
)

type Expect struct {
	Kind string   `json:"kind"`
	Text string   `json:"text,omitempty"`
	Line int      `json:"line,omitempty"`     // 0 = not compared
	Has  []string `json:"contains,omitempty"` // substrings the error message must contain
	Alts []Expect `json:"alts,omitempty"`
}

func (e Expect) String() string {
	switch e.Kind {
	case EValue:
		return fmt.Sprintf("Value(%q)", e.Text)
	case EError:
		s := "Error"
		if e.Line > 0 {
			s += fmt.Sprintf("(line=%d)", e.Line)
		}
		if len(e.Has) > 0 {
			s += fmt.Sprintf("(contains %q)", e.Has)
		}
		return s
	case ESet:
		var p []string
		for _, a := range e.Alts {
			p = append(p, a.String())
		}
		return "OneOf[" + strings.Join(p, " | ") + "]"
	}
	return "Unspecified"
}

// conforms implements the comparison of 2.5. The universal obligations (no panic, no hang,
// output xor error) hold for every kind of expectation.
func conforms(e Expect, o Outcome) (bool, string) {
	if o.Kind == KPanic {
		return false, "panic"
	}
	if o.Kind == KHang {
		return false, "hang"
	}
	if o.Kind == KErr && o.Out != "" {
		return false, "output-and-error"
	}
	switch e.Kind {
	case EValue:
		if o.Kind != KOut {
			return false, "error-instead-of-value"
		}
		if o.Out != e.Text {
			return false, "wrong-value"
		}
	case EError:
		if o.Kind != KErr {
			return false, "value-instead-of-error"
		}
		if e.Line > 0 && o.Line != e.Line {
			return false, "wrong-line"
		}
		for _, h := range e.Has {
			if !strings.Contains(o.Msg, h) && !strings.Contains(o.Raw, h) {
				return false, "message-lacks-name"
			}
		}
	case ESet:
		for _, a := range e.Alts {
			if ok, _ := conforms(a, o); ok {
				return true, ""
			}
		}
		return false, "outside-admissible-set"
	}
	return true, ""
}

// ---------------------------------------------------------------------------------------------
// Violations, worker context, results

type Violation struct {
	Prop     string          `json:"property"`
	Sig      string          `json:"signature"`
	Order    int64           `json:"order"` // simplest-first rank: smaller = simpler
	Case     json.RawMessage `json:"case"`
	Expected string          `json:"expected"`
	Observed string          `json:"observed"`
	Note     string          `json:"note,omitempty"`
	// where the case was met: shard Shard of NShards of tier Tier. NeedsHistory: the case alone does not show the
	// violation in a fresh process, re-running the shard up to it does (state left behind by the earlier cases).
	Shard        int    `json:"shard"`
	NShards      int    `json:"of,omitempty"`
	Tier         string `json:"tier,omitempty"`
	NeedsHistory bool   `json:"needs_history,omitempty"`
}

// exitHistoryReproduced: a worker started with VERIF_STOP_AT_SIG met that signature.
const exitHistoryReproduced = 11

type WorkerResult struct {
	Shard       int              `json:"shard"`
	Evals       int64            `json:"evals"`
	Cases       int64            `json:"cases"`
	NonTrivial  int64            `json:"nontrivial"`
	Samples     []any            `json:"samples"`
	Violations  []Violation      `json:"violations"` // first (simplest) per signature
	VioCount    int64            `json:"vio_count"`
	Exhaustive  bool             `json:"exhaustive"`
	Counters    map[string]int64 `json:"counters"`
	Notes       []string         `json:"notes"`
	OutcomeHash map[string]int64 `json:"outcome_classes"`
	WallS       float64          `json:"wall_s"`
}

type Ctx struct {
	Prop     string
	Tier     string
	Shard    int
	NShards  int
	Seed     int64
	deadline time.Time
	blockCtr int64
	caseCtr  int64
	res      WorkerResult
	vios     map[string]*Violation
	expired  bool
	trace    *os.File // when set (crash diagnosis) every case is logged before it runs
	dedupe   map[uint64]struct{}
}

func (c *Ctx) Thorough() bool { return c.Tier == "thorough" }

// Mine implements block sharding: the generator calls it once per outermost block; exactly one
// shard owns each block. VERIF_SEED only rotates which shard owns which block.
func (c *Ctx) Mine() bool {
	i := c.blockCtr
	c.blockCtr++
	return int((i+c.Seed)%int64(c.NShards)) == c.Shard
}

// Expired reports whether the tier's internal deadline has passed (checked every 256 calls).
func (c *Ctx) Expired() bool {
	if c.expired {
		return true
	}
	c.caseCtr++
	if c.caseCtr&255 == 0 && time.Now().After(c.deadline) {
		c.expired = true
		c.res.Exhaustive = false
		c.Note("internal deadline reached: enumeration cut short (exhaustive=false)")
	}
	return c.expired
}

func (c *Ctx) Note(s string) {
	for _, n := range c.res.Notes {
		if n == s {
			return
		}
	}
	c.res.Notes = append(c.res.Notes, s)
}

func (c *Ctx) Count(name string, n int64) { c.res.Counters[name] += n }

func (c *Ctx) Evals(n int64) { c.res.Evals += n }

// Case counts one enumerated case; nontrivial by the property's own rule.
func (c *Ctx) Case(nontrivial bool) {
	c.res.Cases++
	if nontrivial {
		c.res.NonTrivial++
	}
}

// Sample keeps a few actual cases for the evidence file (the first ones and some later ones).
func (c *Ctx) Sample(v any) {
	n := c.res.Cases
	if len(c.res.Samples) < 3 || (len(c.res.Samples) < 6 && n&(n-1) == 0 && n > 1000) {
		c.res.Samples = append(c.res.Samples, v)
	}
}

func (c *Ctx) OutcomeClass(k string) { c.res.OutcomeHash[k]++ }

// Trace logs the case about to run (only in crash-diagnosis mode).
func (c *Ctx) Trace(v any) {
	if c.trace != nil {
		b, _ := json.Marshal(v)
		c.trace.Write(append(b, '\n'))
	}
}

// Report records a violation; the simplest one per signature is kept.
func (c *Ctx) Report(sig string, order int64, cs any, expected, observed, note string) {
	c.res.VioCount++
	if stop := os.Getenv("VERIF_STOP_AT_SIG"); stop != "" && stop == sig {
		raw, _ := json.Marshal(cs)
		fmt.Printf("property=%s\nshard=%d/%d tier=%s\ncase=%s\nexpected=%s\nobserved=%s\nsignature=%s\nREPRODUCED (after the earlier cases of the shard)\n", c.Prop, c.Shard, c.NShards, c.Tier, string(raw), expected, observed, sig)
		if os.Getenv("VERIF_STOP_EXIT1") != "" {
			os.Exit(1) // under `replay`: 1 = reproduced
		}
		os.Exit(exitHistoryReproduced)
	}
	if old, ok := c.vios[sig]; ok && old.Order <= order {
		return
	}
	if len(c.vios) >= 200 {
		if _, ok := c.vios[sig]; !ok {
			return
		}
	}
	raw, err := json.Marshal(cs)
	if err != nil {
		panic("harness bug: case not serialisable: " + err.Error())
	}
	c.vios[sig] = &Violation{Prop: c.Prop, Sig: sig, Order: order, Case: raw, Expected: expected, Observed: observed, Note: note}
}

func (c *Ctx) finish() WorkerResult {
	keys := make([]string, 0, len(c.vios))
	for k := range c.vios {
		keys = append(keys, k)
	}
	sort.Strings(keys)
	for _, k := range keys {
		v := *c.vios[k]
		v.Shard, v.NShards, v.Tier = c.Shard, c.NShards, c.Tier
		c.res.Violations = append(c.res.Violations, v)
	}
	return c.res
}

// ---------------------------------------------------------------------------------------------
// Property registry

type Property struct {
	ID        string
	Level     string // exploration | fault_enumeration | model_checking
	Rule      string // how cases are enumerated and what makes one non-trivial
	Bounds    func(tier string) map[string]any
	Assume    []string
	Run       func(c *Ctx)
	Replay    func(raw json.RawMessage) (violated bool, sig, expected, observed string)
	Budget    func(tier string) time.Duration // internal deadline
	Workers   int                             // 0 = all cores
	Nondet    bool                            // the property is about nondeterminism: a violation is a pair of differing executions, believed when a fresh process shows one again at least once
	PostMerge func(tier string, cov map[string]any, rs []WorkerResult)
}

var registry = map[string]*Property{}

func register(p *Property) { registry[p.ID] = p }

// registerTyped wires a typed case type into the registry: enumeration reports typed cases,
// replay unmarshals and re-checks one.
func registerTyped[C any](p *Property, check func(cs C) (ok bool, sig, expected, observed string)) {
	p.Replay = func(raw json.RawMessage) (bool, string, string, string) {
		var cs C
		if err := json.Unmarshal(raw, &cs); err != nil {
			panic("harness bug: cannot decode case: " + err.Error())
		}
		ok, sig, e, o := check(cs)
		return !ok, sig, e, o
	}
	register(p)
}

func defaultBudget(tier string) time.Duration {
	if tier == "thorough" {
		return 12 * time.Minute
	}
	return 100 * time.Second
}
