package main

import (
	"fmt"
	"math"
	"sort"
	"strings"
)

// C09 — evaluation never crashes: every runtime fault becomes a Textwire error.

type c09Case struct {
	Src  string `json:"src"`
	Data string `json:"data"` // "good" or the name of one bad value added to the good data as variable "bad"
	Line int    `json:"line"` // expected error line (0 = not compared)
	Pos  string `json:"pos"`
}

func c09Data(id string) map[string]any {
	d := goodData()
	d["min"] = int64(math.MinInt64)
	d["max"] = int64(math.MaxInt64)
	d["nan"] = math.NaN()
	d["inf"] = math.Inf(1)
	d["ninf"] = math.Inf(-1)
	d["go"] = true
	if id != "good" {
		d["bad"] = badValues()[id]
	}
	return d
}

func c09Check(cs c09Case) (ok bool, sig, expected, observed string) {
	expected = "output or an error value (never a panic or a hang)"
	if cs.Line > 0 {
		expected += fmt.Sprintf("; an error carries line %d", cs.Line)
	}
	o := runString(cs.Src, c09Data(cs.Data))
	switch {
	case o.Kind == KPanic || o.Kind == KHang:
		return false, o.Kind + "@" + o.Site, expected, o.String()
	case o.Kind == KErr && o.Out != "":
		return false, "output-and-error/" + cs.Pos, expected, o.String()
	case o.Kind == KErr && cs.Line > 0 && o.Line != cs.Line:
		return false, "wrong-line/" + cs.Pos + "/" + digitsRe.ReplaceAllString(clip(o.Msg, 40), "N"), expected, o.String()
	case o.Kind == KOut && strings.Contains(o.Out, "Textwire ERROR"):
		return false, "error-text-in-output/" + cs.Pos, "a fault is reported through the returned error, never as text of a successful render", o.String()
	case cs.Data != "good" && o.Kind != KErr:
		return false, "unsupported-value-accepted/" + cs.Data, "an unsupported value anywhere in the data makes the call return an error", o.String()
	}
	return true, "", expected, o.String()
}

var c09Atoms = []string{
	"0", "1", "(-1)", "0.5", `""`, `"a"`, "true", "nil", "[]", "[1]", "{}", "{a: 1}", // reduced set: first 12
	"9223372036854775807", "0.0", `"é"`, "false", "[[1]]", `{a: {b: 1}}`,
	"{a: {x: 1, y: 2}, b: 3}", "[{a: {x: 1}, b: [2]}, {c: {}}]", "i", "f", "s", "e", "b", "n", "is", "as", "m", "st", "ps", "pi", "npi", "nps", "nsl", "nm", "sp", "zz", "st.Inner", "sn.Inner", "min", "i8", "u64", "f32", "rows", "rows[1]", "rows[2].A", "nan", "inf", "ninf",
}

const c09Reduced = 12

var c09BinOps = []string{"+", "-", "*", "/", "%", "==", "!=", "<", ">", "<=", ">="}

func c09Funcs() []string {
	set := map[string]bool{"zz": true}
	for _, n := range []string{"len", "split", "raw", "trim", "trimRight", "trimLeft", "upper", "lower", "capitalize", "reverse", "contains", "truncate", "decimal", "at", "first", "last", "repeat",
		"join", "rand", "slice", "shuffle", "append", "prepend", "int", "str", "abs", "ceil", "floor", "round", "float", "binary", "then"} {
		set[n] = true
	}
	var out []string
	for n := range set {
		out = append(out, n)
	}
	sort.Strings(out)
	return out
}

var c09Receivers = []string{`"abc"`, `"é"`, `""`, "[1, 2, 3]", "[]", "5", "(-5)", "0", "2.5", "0.0", "true", "nil", "{a: 1}", "s", "is", "st", "npi", "min", `"12"`, `"日本語"`, "[3, [1, 2]]", `[{a: 1}, 2, "a"]`, "[nil, [1], {}]"}

var c09Args = []string{"min", "(-2)", "(-1)", "0", "1", "2", "3", "4", "1048576", "max", "0.5", `""`, `"a"`, `"é"`, "true", "nil", "[]", "{}", "zz", "[1, 2]", "{a: 1}"}

// positions: the construct sits on line 2
var c09Positions = []struct{ name, pre, post string }{
	{"print", "\n{{ ", " }}"},
	{"assign", "\n{{ q = ", " }}{{ q }}"},
	{"if", "\n@if(", ")x@end"},
	{"elseif", "\n@if(false)x@elseif(", ")y@end"},
	{"each", "\n@each(v in ", ")x{{ v }}@end"},
	{"for-init", "\n@for(q = ", "; false; q++)x@end"},
	{"for-cond", "\n@for(q = 0; ", "; q++)x@break@end"},
	// the loop goes on only while q is "#", a value no generated expression produces: at most two passes
	{"for-post", "\n@for(q = \"#\"; q == \"#\"; ", ")x@end"},
	{"for-post-assign", "\n@for(q = \"#\"; q == \"#\"; q = ", ")x@end"},
	{"breakif", "\n@each(v in [1, 2])x@breakIf(", ")y@end"},
	{"continueif", "\n@each(v in [1, 2])x@continueIf(", ")y@end"},
	{"index-arr", "\n{{ is[", "] }}"},
	{"index-obj", "\n{{ m[", "] }}"},
	{"index-struct", "\n{{ st[", "] }}"},
	{"dump", "\n@dump(", ")"},
	{"ternary-cond", "\n{{ ", " ? 1 : 2 }}"},
	{"array-elem", "\n{{ [1, ", "] }}"},
	{"object-value", "\n{{ {k: ", "}.k }}"},
	{"call-arg", "\n{{ \"abc\".at(", ") }}"},
	// directive arguments that are normally string literals
	{"use-arg", "\n@use(", ")"},
	{"reserve-arg", "\n@reserve(", ")"},
	{"insert-name", "\n@insert(", ")x@end"},
	{"insert-value", "\n@insert(\"a\", ", ")"},
	{"component-name", "\n@component(", ")"},
	{"component-args", "\n@component(\"c\", ", ")"},
	{"slot-name", "\n@component(\"c\")@slot(", ")x@end@end"},
	{"dump-second", "\n@dump(1, ", ")"},
	{"nested-index", "\n{{ as[is[", "]] }}"},
	{"postfix-then-dot", "\n{{ (", ")++.k }}"},
	// the construct sits on line 2 because a comment before it spans two lines
	{"print-after-comment", "{{-- c\nc --}}{{ ", " }}"},
	{"if-after-comment", "a{{--\n--}}@if(", ")x@end"},
}

func c09Run(c *Ctx) {
	order := int64(0)
	do := func(src, data, pos string, line int, size int) bool {
		if c.Expired() {
			return false
		}
		order++
		cs := c09Case{Src: src, Data: data, Line: line, Pos: pos}
		c.Trace(cs)
		ok, sig, exp, obs := c09Check(cs)
		c.Evals(1)
		c.Case(strings.HasPrefix(obs, "Err(") || !ok)
		c.OutcomeClass(strings.SplitN(obs, "(", 2)[0])
		if order%1999 == 1 {
			c.Sample(cs)
		}
		if !ok {
			c.Report(sig, int64(size)*100000000+int64(len(src))*100000+order%100000, cs, exp, obs, "")
		}
		return true
	}
	inAll := func(e string, size int, positions []int) bool {
		for _, pi := range positions {
			p := c09Positions[pi]
			if !do(p.pre+e+p.post, "good", p.name, 2, size) {
				return false
			}
		}
		return true
	}
	allPos := make([]int, len(c09Positions))
	for i := range allPos {
		allPos[i] = i
	}
	fewPos := []int{0, 2, 4, 11}
	atoms := c09Atoms
	// absent @for clauses: all 8 present/absent combinations (a @break keeps condition-less loops finite)
	if c.Mine() {
		for m := 0; m < 8; m++ {
			init, cond, post := "q = 0", "q < 1", "q++"
			if m&1 != 0 {
				init = ""
			}
			if m&2 != 0 {
				cond = ""
			}
			if m&4 != 0 {
				post = ""
			}
			for _, body := range []string{"x@break", "x@breakIf(true)y", "@if(true)@break@end", "x{{ q }}@break"} {
				for _, sp := range []string{"", " "} {
					src := "\n@for(" + init + ";" + sp + cond + ";" + sp + post + ")" + body + "@end"
					if !do(src, "good", "for-absent-clauses", 0, 0) {
						return
					}
					if !do(src+"@for(i;i;i)x@break@end", "good", "for-expression-init", 0, 0) {
						return
					}
				}
			}
		}
		// loops without init or with an expression as init, ended by their own body after one full pass (no @break)
		for _, init := range []string{"", "go", "1"} {
			for _, post := range []string{"", "1", "go", "zz", "q++", "go = false"} {
				for _, body := range []string{"{{ go = false }}x", "x{{ go = false }}@continue"} {
					if !do("\n@for("+init+"; go; "+post+")"+body+"@end", "good", "for-ended-by-its-body", 0, 0) {
						return
					}
				}
			}
		}
		// unsupported values anywhere in the data: the call returns an error
		var bads []string
		for k := range badValues() {
			bads = append(bads, k)
		}
		sort.Strings(bads)
		for _, b := range bads {
			for _, src := range []string{"x", "\n{{ i }}", "\n{{ bad }}", "\n@dump(bad)", "\n@each(v in bad)x@end", "\n{{ bad.Name }}"} {
				if !do(src, b, "bad-data", 0, 0) {
					return
				}
			}
		}
	}
	// depth 0 and 1 in every position
	for _, a := range atoms {
		if !c.Mine() {
			continue
		}
		if !inAll(a, 0, allPos) {
			return
		}
		for _, u := range []string{"-" + a, "!" + a, a + "++", a + "--", a + ".k", a + ".Name", a + ".zz", a + ".len()", a + `[""]`, a + ".Inner.K"} {
			if !inAll(u, 1, allPos) {
				return
			}
		}
		for _, b := range atoms {
			for _, op := range c09BinOps {
				if !inAll(a+" "+op+" "+b, 1, fewPos) {
					return
				}
			}
			if !inAll(a+"["+b+"]", 1, fewPos) || !inAll(a+" ? "+b+" : 1", 1, fewPos[:2]) || !inAll("true ? "+a+" : "+b, 1, fewPos[:1]) {
				return
			}
		}
	}
	// built-ins: every function x receiver x argument tuple of length <= 2
	funcs := c09Funcs()
	for _, fn := range funcs {
		for _, r := range c09Receivers {
			if !c.Mine() {
				continue
			}
			call := func(args string, hasMax bool) bool {
				_ = hasMax // counts of 2^63-1 are run too: an oversized count is an error (or a defined result), not a crash
				return inAll(r+"."+fn+"("+args+")", 1, []int{0})
			}
			if !call("", false) {
				return
			}
			for _, a := range c09Args {
				if !call(a, a == "max" || a == "1048576" && fn == "repeat" && false) {
					return
				}
				for _, b := range c09Args {
					if !call(a+", "+b, a == "max" || b == "max") {
						return
					}
				}
			}
			if c.Thorough() {
				for _, a := range c09Args[:11] {
					for _, b := range c09Args[:11] {
						for _, d := range c09Args[:11] {
							if !call(a+", "+b+", "+d, a == "max" || b == "max" || d == "max") {
								return
							}
						}
					}
				}
			}
		}
	}
	// depth 2 over the reduced atom set
	red := atoms[:c09Reduced]
	if c.Thorough() {
		red = atoms[:24]
	}
	for _, a := range red {
		for _, b := range red {
			if !c.Mine() {
				continue
			}
			for _, op := range c09BinOps {
				inner := "(" + a + " " + op + " " + b + ")"
				for _, u := range []string{"-" + inner, "!" + inner, inner + "++", inner + ".k", inner + "[0]", inner + ".len()", inner + ".at(" + a + ")"} {
					if !inAll(u, 2, fewPos) {
						return
					}
				}
				for _, d := range red {
					for _, op2 := range c09BinOps {
						if !inAll(a+" "+op+" "+b+" "+op2+" "+d, 2, fewPos[:1]) {
							return
						}
					}
				}
			}
		}
	}
}

func init() {
	p := &Property{
		ID:    "C09",
		Level: "exploration",
		Rule: "bounded-exhaustive untyped generation: atoms of every value kind (boundary integers, empty / non-ASCII strings, empty and nested arrays/objects, data variables of every supported Go kind incl. structs, pointers, nil pointers, nil slices/maps, and an unbound name) x every unary / binary / ternary / index / property / call form to expression depth 2 x every position (print, assignment, @if, @elseif, @each, each @for clause, @breakIf, @continueIf, array/object/struct index, @dump, ternary condition, array element, object value, call argument); all 8 present/absent combinations of @for clauses; every built-in name x 20 receivers x every argument tuple of length <=2 (thorough: <=3) from 19 boundary values; one unsupported value at 11 positions of the data.  [as built: a successful render must not contain the text of a Textwire error]" +
			"Non-trivial: the case makes the implementation report an error (a fault was turned into an error value)",
		Bounds: func(tier string) map[string]any {
			if tier == "thorough" {
				return map[string]any{"atoms": len(c09Atoms), "depth2_atoms": 24, "positions": len(c09Positions), "builtin_arg_tuple_len": 3, "functions": len(c09Funcs()), "receivers": len(c09Receivers), "arg_values": len(c09Args)}
			}
			return map[string]any{"atoms": len(c09Atoms), "depth2_atoms": c09Reduced, "positions": len(c09Positions), "builtin_arg_tuple_len": 2, "functions": len(c09Funcs()), "receivers": len(c09Receivers), "arg_values": len(c09Args)}
		},
		Assume: []string{
			"count arguments are 2^20 and 2^63-1: counts in between (results of gigabytes) are not run, they would exhaust the sandbox's memory rather than probe the interpreter",
			"loops without a condition carry a @break, so every generated program terminates by construction",
		},
		Run: c09Run,
	}
	registerTyped(p, c09Check)
}
