package main

import (
	"fmt"
	"math"
	"reflect"
	"strings"
	"time"
	"unicode"
	"unicode/utf8"
)

// C12 — Go data passed to a render is visible in the template with the same structure.

// GSpec describes a Go value by type-directed recursion.
type GSpec struct {
	K string `json:"k"`           // leaf kinds, or: ptr nilptr slice nilslice map nilmap struct anyslice anymap static
	V string `json:"v,omitempty"` // leaf value selector
	N int    `json:"n,omitempty"` // slice / map size
	E *GSpec `json:"e,omitempty"`
}

type c12Case struct {
	Spec GSpec  `json:"spec"`
	Path string `json:"path"` // access path appended to the variable d
}

type gBuilt struct {
	rv        reflect.Value
	model     Val
	supported bool
	ambig     bool // an unsupported *type* occurs without any value of it (nil pointer to it, empty slice/map of it): not pinned down
}

var c12LeafKinds = []struct {
	kind string
	vals []string
}{
	{"bool", []string{"true", "false"}},
	{"string", []string{"", "x<&>\"'", "é"}},
	{"int", []string{"min", "-1", "0", "max"}},
	{"int8", []string{"min", "max"}},
	{"int16", []string{"min", "max"}},
	{"int32", []string{"min", "max"}},
	{"int64", []string{"min", "max"}},
	{"uint", []string{"0", "max"}},
	{"uint8", []string{"max"}},
	{"uint16", []string{"max"}},
	{"uint32", []string{"max"}},
	{"uint64", []string{"0", "max"}},
	{"float32", []string{"1.5", "-0.25"}},
	{"float64", []string{"2.25", "-0.5", "0"}},
	{"nil", []string{""}},
	// unsupported kinds
	{"chan", []string{""}},
	{"func", []string{""}},
	{"complex128", []string{""}},
	{"array", []string{""}},
	{"uintptr", []string{""}},
	{"mapintkey", []string{""}},
}

// named types: their kinds are the supported ones
type C12Int int
type C12Str string
type C12Flt float64
type C12Bool bool
type C12U8 uint8

type C12Named struct {
	N  C12Int
	S  C12Str
	F  C12Flt
	B  C12Bool
	U  C12U8
	D  time.Duration
	L  []C12Int
	P  *C12Int
	M  map[string]C12Str
	Éa int
	Ωb string
}

type C12Static struct {
	Name   string
	hidden int
	Inner  *C12Static
	Any    any
	List   []C12Static
}

func c12BuildLeaf(s GSpec) gBuilt {
	ok := func(v any, m Val) gBuilt { return gBuilt{reflect.ValueOf(v), m, true, false} }
	bad := func(v any) gBuilt { return gBuilt{reflect.ValueOf(v), Val{}, false, false} }
	pick := func(min, max int64) int64 {
		switch s.V {
		case "min":
			return min
		case "max":
			return max
		case "-1":
			return -1
		}
		return 0
	}
	switch s.K {
	case "bool":
		return ok(s.V == "true", vBool(s.V == "true"))
	case "string":
		return ok(s.V, vStr(s.V))
	case "int":
		i := pick(math.MinInt64, math.MaxInt64)
		return ok(int(i), vInt(i))
	case "int8":
		i := pick(math.MinInt8, math.MaxInt8)
		return ok(int8(i), vInt(i))
	case "int16":
		i := pick(math.MinInt16, math.MaxInt16)
		return ok(int16(i), vInt(i))
	case "int32":
		i := pick(math.MinInt32, math.MaxInt32)
		return ok(int32(i), vInt(i))
	case "int64":
		i := pick(math.MinInt64, math.MaxInt64)
		return ok(i, vInt(i))
	case "uint":
		i := pick(0, math.MaxInt64)
		return ok(uint(i), vInt(i))
	case "uint8":
		return ok(uint8(255), vInt(255))
	case "uint16":
		return ok(uint16(65535), vInt(65535))
	case "uint32":
		return ok(uint32(math.MaxUint32), vInt(math.MaxUint32))
	case "uint64":
		i := pick(0, math.MaxInt64)
		return ok(uint64(i), vInt(i))
	case "float32":
		f := float32(1.5)
		if s.V != "1.5" {
			f = -0.25
		}
		return ok(f, vFloat(float64(f)))
	case "float64":
		f := 2.25
		switch s.V {
		case "-0.5":
			f = -0.5
		case "0":
			f = 0
		}
		return ok(f, vFloat(f))
	case "nil":
		return gBuilt{reflect.Value{}, vNil(), true, false}
	case "chan":
		return bad(make(chan int))
	case "func":
		return bad(func() {})
	case "complex128":
		return bad(complex(1, 2))
	case "array":
		return bad([2]int{1, 2})
	case "uintptr":
		return bad(uintptr(1))
	case "mapintkey":
		return bad(map[int]string{1: "a"})
	}
	panic("harness bug: leaf kind " + s.K)
}

var anyType = reflect.TypeOf((*any)(nil)).Elem()

// c12Build constructs the Go value and its model.
func c12Build(s GSpec) gBuilt {
	if s.E == nil && s.K != "static" && s.K != "casemap" && s.K != "samename" && s.K != "named" && s.K != "shared" && s.K != "sibA" && s.K != "sibB" {
		return c12BuildLeaf(s)
	}
	if s.K == "samename" {
		// three different types, all named Row (declared in different functions), in one value
		a, am := c12RowA()
		b, bm := c12RowB()
		cc, cm := c12RowC()
		v := []any{a, b, cc, a}
		return gBuilt{reflect.ValueOf(v), vArr(am, bm, cm, am), true, false}
	}
	if s.K == "named" {
		seven := C12Int(7)
		v := C12Named{N: 5, S: "s", F: 1.5, B: true, U: 200, D: 1500 * time.Millisecond, L: []C12Int{1, 2}, P: &seven, M: map[string]C12Str{"k": "v"}, Éa: 3, Ωb: "w"}
		m := vObj("N", vInt(5), "S", vStr("s"), "F", vFloat(1.5), "B", vBool(true), "U", vInt(200), "D", vInt(1500000000), "L", vArr(vInt(1), vInt(2)), "P", vInt(7),
			"M", vObj("k", vStr("v")), "Éa", vInt(3), "Ωb", vStr("w"))
		return gBuilt{reflect.ValueOf(v), m, true, false}
	}
	if s.K == "shared" || s.K == "sibA" || s.K == "sibB" {
		// finite values whose parts share memory: the same map and slice twice, a slice that holds a shorter slice of
		// its own array, rows that point back to the first row
		m := map[string]any{"k": true}
		in := []any{1, 2}
		sl := []any{7, 8, nil}
		sl[2] = sl[:1]
		type row struct {
			N      int
			Parent *row
		}
		rows := make([]row, 3)
		for i := range rows {
			rows[i].N = i
			if i > 0 {
				rows[i].Parent = &rows[0]
			}
		}
		// a pointer to the first field of the struct it sits in has the address of the struct itself
		type inner struct{ K int }
		type outer struct {
			In inner
			P  *inner
		}
		o := &outer{In: inner{K: 4}}
		o.P = &o.In
		// ... and so has a pointer to the first field of a struct that a sibling pointer leads to (both orders)
		type acct struct {
			ID    int
			Owner string
		}
		type pgA struct {
			Account *acct
			TopID   *int
		}
		type pgB struct {
			TopID   *int
			Account *acct
		}
		ac := &acct{ID: 41, Owner: "ann"}
		if s.K == "sibA" { // (values of their own: the order in which the entries of a Go map are converted is not fixed)
			return gBuilt{reflect.ValueOf(pgA{Account: ac, TopID: &ac.ID}), vObj("Account", vObj("ID", vInt(41), "Owner", vStr("ann")), "TopID", vInt(41)), true, false}
		}
		if s.K == "sibB" {
			return gBuilt{reflect.ValueOf(pgB{TopID: &ac.ID, Account: ac}), vObj("TopID", vInt(41), "Account", vObj("ID", vInt(41), "Owner", vStr("ann"))), true, false}
		}
		v := map[string]any{"twice": []any{m, m, in, in}, "selfslice": sl, "rows": rows, "firstfield": o}
		r0 := vObj("N", vInt(0), "Parent", vNil())
		model := vObj("twice", vArr(vObj("k", vBool(true)), vObj("k", vBool(true)), vArr(vInt(1), vInt(2)), vArr(vInt(1), vInt(2))),
			"selfslice", vArr(vInt(7), vInt(8), vArr(vInt(7))),
			"rows", vArr(r0, vObj("N", vInt(1), "Parent", r0), vObj("N", vInt(2), "Parent", r0)),
			"firstfield", vObj("In", vObj("K", vInt(4)), "P", vObj("K", vInt(4))))
		return gBuilt{reflect.ValueOf(v), model, true, false}
	}
	if s.K == "casemap" {
		// keys that differ in case only, and keys spelled like keywords of the language
		v := map[string]any{"name": "lower", "Name": "upper", "id": 1, "ID": 2, "Url": "U", "in": "kw-in", "true": "kw-true", "false": "kw-false", "nil": "kw-nil", "loop": "kw-loop", "len": "fn-len"}
		return gBuilt{reflect.ValueOf(v), vObj("name", vStr("lower"), "Name", vStr("upper"), "id", vInt(1), "ID", vInt(2), "Url", vStr("U"),
			"in", vStr("kw-in"), "true", vStr("kw-true"), "false", vStr("kw-false"), "nil", vStr("kw-nil"), "loop", vStr("kw-loop"), "len", vStr("fn-len")), true, false}
	}
	if s.K == "static" {
		v := C12Static{Name: "top", hidden: 7, Inner: &C12Static{Name: "in", Any: int8(3)}, Any: []int{4}, List: []C12Static{{Name: "l0"}}}
		inner := vObj("Name", vStr("in"), "Inner", vNil(), "Any", vInt(3), "List", Val{K: VArr})
		l0 := vObj("Name", vStr("l0"), "Inner", vNil(), "Any", vNil(), "List", Val{K: VArr})
		return gBuilt{reflect.ValueOf(v), vObj("Name", vStr("top"), "Inner", inner, "Any", vArr(vInt(4)), "List", vArr(l0)), true, false}
	}
	e := c12Build(*s.E)
	et := anyType
	if e.rv.IsValid() {
		et = e.rv.Type()
	}
	elemVal := func(t reflect.Type) reflect.Value {
		if e.rv.IsValid() {
			return e.rv
		}
		return reflect.Zero(t) // nil interface
	}
	switch s.K {
	case "ptr":
		p := reflect.New(et)
		p.Elem().Set(elemVal(et))
		return gBuilt{p, e.model, e.supported, e.ambig}
	case "nilptr":
		return gBuilt{reflect.Zero(reflect.PointerTo(et)), vNil(), true, e.ambig || !e.supported}
	case "slice", "anyslice":
		t := et
		if s.K == "anyslice" {
			t = anyType
		}
		sl := reflect.MakeSlice(reflect.SliceOf(t), s.N, s.N)
		m := Val{K: VArr}
		for i := 0; i < s.N; i++ {
			sl.Index(i).Set(elemVal(t))
			m.A = append(m.A, e.model)
		}
		return gBuilt{sl, m, e.supported || s.N == 0, e.ambig || (!e.supported && s.N == 0)}
	case "nilslice":
		return gBuilt{reflect.Zero(reflect.SliceOf(et)), Val{K: VArr}, true, e.ambig || !e.supported}
	case "map", "anymap":
		t := et
		if s.K == "anymap" {
			t = anyType
		}
		mp := reflect.MakeMap(reflect.MapOf(reflect.TypeOf(""), t))
		m := Val{K: VObj, O: map[string]Val{}}
		keys := []string{"k0", "key1"}
		for i := 0; i < s.N; i++ {
			mp.SetMapIndex(reflect.ValueOf(keys[i]), elemVal(t))
			m.O[keys[i]] = e.model
		}
		return gBuilt{mp, m, e.supported || s.N == 0, e.ambig || (!e.supported && s.N == 0)}
	case "nilmap":
		return gBuilt{reflect.Zero(reflect.MapOf(reflect.TypeOf(""), et)), Val{K: VObj, O: map[string]Val{}}, true, e.ambig || !e.supported}
	case "struct":
		st := reflect.StructOf([]reflect.StructField{{Name: "Fa", Type: et}, {Name: "Gb", Type: reflect.TypeOf(0)}})
		v := reflect.New(st).Elem()
		v.Field(0).Set(elemVal(et))
		v.Field(1).SetInt(42)
		return gBuilt{v, vObj("Fa", e.model, "Gb", vInt(42)), e.supported, e.ambig}
	}
	panic("harness bug: composite kind " + s.K)
}

// c12ThinFrom: from this level on the recursion goes over one value per kind of the previous level only.
var c12ThinFrom = 2

func c12Specs(depth int) []GSpec {
	var leaves []GSpec
	for _, lk := range c12LeafKinds {
		for _, v := range lk.vals {
			leaves = append(leaves, GSpec{K: lk.kind, V: v})
		}
	}
	levels := [][]GSpec{leaves}
	for d := 1; d < depth; d++ {
		var next []GSpec
		prev := levels[d-1]
		if d >= c12ThinFrom {
			// deeper levels recurse over a thinner slice of the previous level (one value per kind)
			var thin []GSpec
			seen := map[string]bool{}
			for _, p := range prev {
				key := p.K
				if p.E != nil {
					key += "/" + p.E.K + fmt.Sprint(p.N)
					if p.E.E != nil {
						key += "/" + p.E.E.K
					}
				}
				if !seen[key] {
					seen[key] = true
					thin = append(thin, p)
				}
			}
			prev = thin
		}
		for i := range prev {
			e := prev[i]
			next = append(next,
				GSpec{K: "ptr", E: &e}, GSpec{K: "nilptr", E: &e},
				GSpec{K: "slice", N: 1, E: &e}, GSpec{K: "slice", N: 2, E: &e}, GSpec{K: "slice", N: 0, E: &e}, GSpec{K: "nilslice", E: &e},
				GSpec{K: "anyslice", N: 1, E: &e},
				GSpec{K: "map", N: 1, E: &e}, GSpec{K: "map", N: 2, E: &e}, GSpec{K: "map", N: 0, E: &e}, GSpec{K: "nilmap", E: &e},
				GSpec{K: "anymap", N: 1, E: &e},
				GSpec{K: "struct", E: &e})
		}
		levels = append(levels, next)
	}
	var all []GSpec
	for _, l := range levels {
		all = append(all, l...)
	}
	all = append(all, GSpec{K: "static"}, GSpec{K: "casemap"}, GSpec{K: "samename"}, GSpec{K: "named"}, GSpec{K: "shared"}, GSpec{K: "sibA"}, GSpec{K: "sibB"}, GSpec{K: "dotsite"},
		GSpec{K: "slice", N: 2, E: &GSpec{K: "named"}}, GSpec{K: "ptr", E: &GSpec{K: "named"}}, GSpec{K: "anymap", N: 1, E: &GSpec{K: "named"}})
	return all
}

// c12Paths enumerates every access path into the model value with the expectation for it.
type c12Path struct {
	path string
	exp  Expect
}

func c12Paths(m Val, prefix string, out *[]c12Path, depth int) {
	p, ok := m.Print()
	if ok {
		*out = append(*out, c12Path{prefix, Expect{Kind: EValue, Text: "[" + p + "]"}})
	} else {
		*out = append(*out, c12Path{prefix, Expect{Kind: EUnspec}})
	}
	if depth > 5 {
		return
	}
	switch m.K {
	case VArr:
		for i, e := range m.A {
			c12Paths(e, fmt.Sprintf("%s[%d]", prefix, i), out, depth+1)
		}
	case VObj:
		for k, e := range m.O {
			first, size := utf8.DecodeRuneInString(k)
			ascii := first < utf8.RuneSelf
			if ascii {
				c12Paths(e, prefix+"."+k, out, depth+1) // dot syntax needs an ASCII identifier
			}
			c12Paths(e, prefix+`["`+k+`"]`, out, depth+1)
			if unicode.IsUpper(first) {
				// "a field also with its first letter lower-cased"
				lower := string(unicode.ToLower(first)) + k[size:]
				if _, clash := m.O[lower]; !clash {
					if ascii {
						c12Paths(e, prefix+"."+lower, out, depth+1)
					}
					c12Paths(e, prefix+`["`+lower+`"]`, out, depth+1)
				}
			}
		}
		*out = append(*out, c12Path{prefix + ".absentKey", Expect{Kind: EError}})
	case VNil, VInt, VStr, VBool, VFloat:
		// property access on a non-object is an error (C09)
		*out = append(*out, c12Path{prefix + ".k", Expect{Kind: EError}})
	}
}

func c12Data(b gBuilt) map[string]any {
	var v any
	if b.rv.IsValid() {
		v = b.rv.Interface()
	}
	return map[string]any{"d": v, "other": 1}
}

// c12DotSite: one access expression meets values of different make one after the other (a struct whose field is
// reached through the lower-cased alias, then a map that has both spellings as keys), in the passes of a loop and in two
// renders of one loaded page.
func c12DotSite() (ok bool, sig, expected, observed string) {
	type named struct{ Name string }
	rows := []any{named{"S"}, map[string]any{"name": "lower", "Name": "upper"}, named{"T"}, map[string]any{"Name": "only"}, map[string]any{"name": "l2", "Name": "u2"}}
	expected = "[S][lower][T][only][l2] for every way of reaching .name"
	for _, src := range []string{"@each(r in rows)[{{ r.name }}]@end", `@each(r in rows)[{{ r["name"] }}]@end`, "@for(i = 0; i < 5; i++)[{{ rows[i].name }}]@end"} {
		o := runString(src, map[string]any{"rows": rows})
		if o.Kind != KOut || o.Out != "[S][lower][T][only][l2]" {
			return false, "access-depends-on-earlier-values-at-the-same-expression", expected + " (" + src + ")", o.String()
		}
	}
	t := Tree{Dir: "t", Ext: ".tw", Files: map[string]string{"index.tw": "[{{ d.name }}]"}}
	t.write()
	tpl, lo := t.load()
	if lo.Kind != KOut {
		return false, "load-failed", expected, lo.String()
	}
	got := ""
	for _, d := range rows {
		o := render(tpl, "index", map[string]any{"d": d})
		got += o.Out
		if o.Kind != KOut {
			got += o.String()
		}
	}
	if got != "[S][lower][T][only][l2]" {
		return false, "access-depends-on-earlier-renders-of-the-page", expected + " (five renders of [{{ d.name }}])", got
	}
	return true, "", expected, got
}

func c12Check(cs c12Case) (ok bool, sig, expected, observed string) {
	if cs.Spec.K == "dotsite" {
		return c12DotSite()
	}
	b := c12Build(cs.Spec)
	data := c12Data(b)
	keep := c12Data(c12Build(cs.Spec)) // an independent, equal copy
	src := "[{{ d" + cs.Path + " }}]"
	if !b.supported && !b.ambig && cs.Path == "" {
		src = "[{{ other }}]" // the template does not even touch the unsupported value: the call must fail all the same
	}
	o := runString(src, data)
	shape := c12Shape(cs.Spec)
	if o.Kind == KPanic || o.Kind == KHang {
		return false, o.Kind + "@" + o.Site, "no crash for " + src + " with d=" + shape, o.String()
	}
	if b.ambig {
		return true, "", "not pinned down (an unsupported type without a value of it)", o.String()
	}
	if !b.supported {
		expected = "an error: the data contains a value of an unsupported kind (" + shape + ")"
		if o.Kind != KErr {
			return false, "unsupported-accepted/" + shape, expected, o.String()
		}
		return true, "", expected, o.String()
	}
	if !reflect.DeepEqual(data, keep) {
		return false, "caller-data-modified/" + shape, "the caller's data is unchanged", fmt.Sprintf("%#v", data["d"])
	}
	var paths []c12Path
	c12Paths(b.model, "", &paths, 0)
	if cs.Spec.K == "static" {
		paths = append(paths, c12Path{".hidden", Expect{Kind: EError}}, c12Path{".Hidden", Expect{Kind: EError}}, c12Path{".Inner.hidden", Expect{Kind: EError}})
	}
	var exp *Expect
	for i := range paths {
		if paths[i].path == cs.Path {
			exp = &paths[i].exp
		}
	}
	if exp == nil {
		return true, "", "path not in the model", o.String()
	}
	expected = exp.String() + " for " + src + " with d=" + shape
	good, why := conforms(*exp, o)
	if good {
		return true, "", expected, o.String()
	}
	return false, why + "/" + shape, expected, o.String()
}

func c12Shape(s GSpec) string {
	if s.E == nil {
		return s.K
	}
	n := s.K
	if s.K == "slice" || s.K == "map" || s.K == "anyslice" || s.K == "anymap" {
		n += fmt.Sprint(s.N)
	}
	return n + "(" + c12Shape(*s.E) + ")"
}

func c12Run(c *Ctx) {
	depth := 4
	if c.Thorough() {
		depth, c12ThinFrom = 6, 3 // the second composite level over every value of the first
	}
	specs := c12Specs(depth)
	order := int64(0)
	for b := 0; b < len(specs); b += 16 {
		if !c.Mine() {
			continue
		}
		end := b + 16
		if end > len(specs) {
			end = len(specs)
		}
		for _, sp := range specs[b:end] {
			if c.Expired() {
				return
			}
			if sp.K == "dotsite" {
				cs := c12Case{Spec: sp}
				c.Trace(cs)
				okd, sig, exp, obs := c12Check(cs)
				c.Evals(1)
				c.Case(true)
				if !okd {
					c.Report(sig, 1, cs, exp, obs, "")
				}
				continue
			}
			built := c12Build(sp)
			var paths []c12Path
			if built.supported {
				c12Paths(built.model, "", &paths, 0)
				if sp.K == "static" {
					paths = append(paths, c12Path{".hidden", Expect{}}, c12Path{".Hidden", Expect{}}, c12Path{".Inner.hidden", Expect{}})
				}
			} else {
				paths = []c12Path{{"", Expect{}}, {".k0", Expect{}}}
			}
			for _, p := range paths {
				cs := c12Case{Spec: sp, Path: p.path}
				order++
				c.Trace(cs)
				ok, sig, exp, obs := c12Check(cs)
				c.Evals(1)
				c.Case(sp.E != nil || !built.supported)
				c.OutcomeClass(strings.SplitN(obs, "(", 2)[0])
				if order%1009 == 1 {
					c.Sample(map[string]any{"value": c12Shape(sp), "path": "d" + p.path, "expected": exp, "observed": obs})
				}
				if !ok {
					c.Report(sig, int64(len(c12Shape(sp)))*1000000+order%1000000, cs, exp, obs, "")
				}
			}
		}
	}
}

func init() {
	p := &Property{
		ID:    "C12",
		Level: "exploration",
		Rule: "type-directed recursion to a depth bound over Go kinds: leaves bool, string (incl. HTML-special and multi-byte), every signed/unsigned integer width at its bounds (within int64), float32/64, nil interface, and the unsupported kinds chan, func, complex128, array, uintptr, map[int]T; composites pointer (non-nil / nil), slice (len 0..2, nil), map[string]T (0..2 keys, nil), struct built with reflect.StructOf, []any and map[string]any holding each, plus a statically declared struct with an unexported field; for every value every access path (dot, [\"key\"], [i], lower-cased first letter) with the expected print; unsupported kinds at every position must make the call fail; the data map is compared with an independent copy afterwards. " +
			"Non-trivial: the value is composite or contains an unsupported kind",
		Bounds: func(tier string) map[string]any {
			if tier == "thorough" {
				c12ThinFrom = 3
				return map[string]any{"depth": 6, "full_levels": 2, "values": len(c12Specs(6))}
			}
			return map[string]any{"depth": 4, "values": len(c12Specs(4))}
		},
		Assume: []string{"from depth 3 on, one representative per shape of the previous level is recursed into", "index beyond a slice's length and printing of multi-key objects (order: C14) are not compared"},
		Run:    c12Run,
	}
	registerTyped(p, c12Check)
}

// Three distinct struct types that share the name Row (a cache keyed by the type's name would mix them up).
func c12RowA() (any, Val) {
	type Row struct {
		A int
		B string
	}
	return Row{A: 1, B: "b"}, vObj("A", vInt(1), "B", vStr("b"))
}

func c12RowB() (any, Val) {
	type Row struct {
		hidden int
		Z      string
	}
	return Row{hidden: 1, Z: "z"}, vObj("Z", vStr("z"))
}

func c12RowC() (any, Val) {
	type Row struct {
		A []int
		B int
		C *int
		D float64
	}
	return &Row{A: []int{7}, B: 2, D: 0.5}, vObj("A", vArr(vInt(7)), "B", vInt(2), "C", vNil(), "D", vFloat(0.5))
}
