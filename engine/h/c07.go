package main

import (
	"fmt"
	"sort"
	"strings"
)

// C07 — each @component use renders the component file with its own arguments and slots.

type c07Use struct {
	Comp  int `json:"comp"`  // 0: the enumerated component X, 1: the fixed component Y (addressed as ~y = components/y)
	Arg   int `json:"arg"`   // argument variant
	Slots int `json:"slots"` // slot variant
	Place int `json:"place"` // 0 top, 1 in @if, 2 in @each (argument from the loop variable), 3 in an insert of a layout page, 4 in the default slot of a use of Y
}

type c07Case struct {
	X       []int    `json:"x"` // component X: indices into the item alphabet
	Uses    []c07Use `json:"uses"`
	Data    int      `json:"data"` // 0: o="O", v="V"   1: o=7 (int), v="V"
	Special string   `json:"special,omitempty"`
	Gap     int      `json:"gap,omitempty"` // 0 none; 1: a blank after every use, then a printed value; 2: a line break after every use, then a directive; 3: a use ends the file after a blank line; 4: blank, comment, line break between ")" and the first @slot
}

var c07Items = []string{"T", "PA", "PO", "IFA", "SD", "SN", "SM", "T2", "IFSD", "EACHSN", "ELSESM", "ELIFSD", "EACHELSESD", "FORELSESN", "AVO"}

func c07XNodes(items []int) (nodes []*Node, slots []string) {
	for pos, ix := range items {
		switch c07Items[ix] {
		case "T":
			nodes = append(nodes, nText(fmt.Sprintf("<x%d>", pos)))
		case "T2":
			nodes = append(nodes, nText("\n"))
		case "PA":
			nodes = append(nodes, nText("a="), nPrint(eVar("a")), nText(";"))
		case "PO":
			// o comes from the data; e is data too, but shadowed by the loop variable when the use sits in a loop (place 2)
			nodes = append(nodes, nText("o="), nPrint(eVar("o")), nText(";e="), nPrint(eVar("e")), nText(";"))
		case "IFA":
			// text before and after an expression in the first branch
			nodes = append(nodes, &Node{K: "if", E: eVar("a"), Body: []*Node{nText("<b>"), nPrint(eVar("a")), nText("</b>Y")}, HasElse: true, Else: []*Node{nText("N")}})
		case "SD":
			nodes = append(nodes, &Node{K: "slot", Name: ""})
			slots = append(slots, "")
		case "SN":
			nodes = append(nodes, &Node{K: "slot", Name: "n"})
			slots = append(slots, "n")
		case "SM":
			nodes = append(nodes, &Node{K: "slot", Name: "m"})
			slots = append(slots, "m")
		case "IFSD": // placeholders nested in the component's own blocks
			nodes = append(nodes, &Node{K: "if", E: eVar("o"), Body: []*Node{nText("("), {K: "slot", Name: ""}, nText(")")}})
			slots = append(slots, "")
		case "ELIFSD":
			nodes = append(nodes, &Node{K: "if", E: eLit(vBool(false)), Body: []*Node{nText("no")}, ElseIfs: []ElseIf{{Cond: eVar("o"), Body: []*Node{nText("(ei"), {K: "slot", Name: ""}, nText(")")}}}})
			slots = append(slots, "")
		case "EACHSN":
			nodes = append(nodes, &Node{K: "each", Name: "q", E: &Expr{Op: "arr", Kids: []*Expr{eLit(vInt(1)), eLit(vInt(2))}}, Body: []*Node{nText("<"), {K: "slot", Name: "n"}, nText(">")}})
			slots = append(slots, "n")
		case "EACHELSESD": // placeholders in the @else of the component's own loops
			nodes = append(nodes, &Node{K: "each", Name: "q", E: &Expr{Op: "arr"}, Body: []*Node{nText("no")}, HasElse: true, Else: []*Node{nText("{e"), {K: "slot", Name: ""}, nText("}")}})
			slots = append(slots, "")
		case "FORELSESN":
			nodes = append(nodes, &Node{K: "for", Init: nAssign("j", eLit(vInt(0))), Cond: eBin("<", eVar("j"), eLit(vInt(0))), Post: nPrint(&Expr{Op: "inc", Kids: []*Expr{eVar("j")}}),
				Body: []*Node{nText("no")}, HasElse: true, Else: []*Node{nText("{f"), {K: "slot", Name: "n"}, nText("}")}})
			slots = append(slots, "n")
		case "AVO":
			// the component assigns: to a name of the caller (a binding of its own, gone with the use) and to o, which may be
			// its own argument standing in front of the caller's o
			// (w is a caller variable that no slot body reads: which scope a slot body sees is not stated)
			nodes = append(nodes, nText("[w="), nPrint(eVar("w")), nText("]"), nAssign("w", eLit(vStr("cw"))), nAssign("o", eVar("o")), nText("[w="), nPrint(eVar("w")), nText("]"))
		case "ELSESM":
			nodes = append(nodes, &Node{K: "if", E: eLit(vBool(false)), Body: []*Node{nText("no")}, HasElse: true, Else: []*Node{nText("{"), {K: "slot", Name: "m"}, nText("}")}})
			slots = append(slots, "m")
		}
	}
	return nodes, slots
}

const c07ArgVariants = 11
const c07SlotVariants = 4

// c07UseNode builds one component use; idx makes its argument values and slot bodies unique.
func c07UseNode(u c07Use, idx int, xSlots []string, loopVar string) *Node {
	n := &Node{K: "component", Name: "x"}
	declared := xSlots
	if u.Comp == 1 {
		n.Name = "~y"
		declared = []string{""}
	}
	// a placeholder name declared at two places is still one slot for the caller
	uniq := []string{}
	for _, d := range declared {
		dup := false
		for _, u := range uniq {
			dup = dup || u == d
		}
		if !dup {
			uniq = append(uniq, d)
		}
	}
	declared = uniq
	lit := vInt(int64(100 + idx))
	switch u.Arg {
	case 1:
		n.HasArgs, n.Keys, n.Vals = true, []string{"a"}, []*Expr{eLit(lit)}
	case 2:
		n.HasArgs, n.Keys, n.Vals = true, []string{"a"}, []*Expr{eVar("v")}
	case 3:
		if loopVar != "" {
			n.HasArgs, n.Keys, n.Vals = true, []string{"a"}, []*Expr{eVar(loopVar)}
		} else {
			n.HasArgs, n.Keys, n.Vals = true, []string{"a"}, []*Expr{eBin("+", eLit(vStr(fmt.Sprintf("s%d", idx))), eVar("v"))}
		}
	case 4: // shadows the outer o with a value of the same type
		n.HasArgs, n.Keys, n.Vals = true, []string{"a", "o"}, []*Expr{eLit(lit), eLit(vStr(fmt.Sprintf("shadow%d", idx)))}
	case 5: // shadows the outer o with a value of another type
		n.HasArgs, n.Keys, n.Vals = true, []string{"a", "o"}, []*Expr{eLit(vStr(fmt.Sprintf("t%d", idx))), eLit(vFloat(float64(idx) + 0.5))}
	case 7: // an argument value that names another argument: it is the caller's variable that counts
		n.HasArgs, n.Keys, n.Vals = true, []string{"a", "o"}, []*Expr{eVar("v"), eVar("a")}
	case 8: // the reserved name as an argument
		n.HasArgs, n.Keys, n.Vals = true, []string{"a", "loop"}, []*Expr{eLit(lit), eLit(vInt(1))}
	case 9: // a nil argument stands in front of the caller's o like any other value
		n.HasArgs, n.Keys, n.Vals = true, []string{"a", "o"}, []*Expr{eLit(lit), eLit(vNil())}
	case 10: // the last value is an object itself: its closing brace stands right before the closing brace of the arguments
		n.HasArgs, n.Keys, n.Vals = true, []string{"a", "u"}, []*Expr{eLit(lit), {Op: "obj", Keys: []string{"n"}, Kids: []*Expr{eVar("v")}}}
	case 6: // falsy argument
		n.HasArgs, n.Keys, n.Vals = true, []string{"a"}, []*Expr{eLit(vStr(""))}
	}
	body := func(s string) []*Node {
		tag := s
		if tag == "" {
			tag = "d"
		}
		if loopVar != "" { // a slot body written inside a loop shows that pass's variable (loop.* is left out: a placeholder may sit in a loop of the component)
			return []*Node{nText(fmt.Sprintf("[S%d%s ", idx, tag)), nPrint(eVar("v")), nText(":"), nPrint(eVar(loopVar)), nText("]")}
		}
		return []*Node{nText(fmt.Sprintf("[S%d%s ", idx, tag)), nPrint(eVar("v")), nText("]")}
	}
	switch u.Slots {
	case 1:
		for _, s := range declared {
			n.Slots = append(n.Slots, SlotUse{Name: s, Body: body(s)})
		}
	case 2:
		if len(declared) > 0 {
			n.Slots = append(n.Slots, SlotUse{Name: declared[0], Body: body(declared[0])})
		}
	case 3:
		if len(declared) > 0 {
			s := declared[len(declared)-1]
			n.Slots = append(n.Slots, SlotUse{Name: s, Body: []*Node{nText(fmt.Sprintf("[T%d]", idx))}})
		}
	}
	return n
}

type c07Built struct {
	tree    Tree
	env     *tplEnv
	data    map[string]Val
	loadErr []string
}

func c07Build(cs c07Case) c07Built {
	var b c07Built
	b.tree = Tree{Dir: "t", Ext: ".tw", Files: map[string]string{}}
	xNodes, xSlots := c07XNodes(cs.X)
	xf := &TplFile{Nodes: xNodes}
	yf := &TplFile{Nodes: []*Node{nText("<y a="), nPrint(eVar("a")), nText("|"), {K: "slot", Name: ""}, nText(">")}}
	page := &TplFile{}
	lay := &TplFile{Nodes: []*Node{nText("<lay>"), {K: "reserve", Name: "main"}, nText("</lay>")}}
	usesInsert := false
	var insertBody []*Node
	for i, u := range cs.Uses {
		tag := fmt.Sprintf("%d", i)
		switch u.Place {
		case 0:
			use := c07UseNode(u, i, xSlots, "")
			switch cs.Gap {
			case 1:
				page.Nodes = append(page.Nodes, nText("{"+tag), use, nText(" "), nPrint(eVar("v")), nText(tag+"}"))
			case 2:
				page.Nodes = append(page.Nodes, nText("{"+tag), use, nText("\n"), &Node{K: "if", E: eVar("v"), Body: []*Node{nText("I")}}, nText(" "), &Node{K: "comment", Text: " c "}, nText(tag+"}"))
			case 3:
				page.Nodes = append(page.Nodes, nText("{"+tag), use, nText("\n\n"))
			case 5: // three different pieces of whitespace, split by two comments, and no slot behind them
				page.Nodes = append(page.Nodes, nText("{"+tag), use, nText(" "), &Node{K: "comment", Text: "a"}, nText("\t"), &Node{K: "comment", Text: "b"}, nText("\n"), nPrint(eVar("v")), nText(tag+"}"))
			case 4:
				use.Gap = " {{-- c --}}\n"
				page.Nodes = append(page.Nodes, nText("{"+tag), use, nText(tag+"}"))
			case 6: // a CR LF line break and a tab before the first slot
				use.Gap = "\r\n\t"
				page.Nodes = append(page.Nodes, nText("{"+tag), use, nText(tag+"}"))
			default:
				page.Nodes = append(page.Nodes, nText("{"+tag), use, nText(tag+"}"))
			}
		case 1:
			page.Nodes = append(page.Nodes, &Node{K: "if", E: eVar("v"), Body: []*Node{nText("{if" + tag), c07UseNode(u, i, xSlots, ""), nText("}")}})
		case 2:
			lv := "e"
			page.Nodes = append(page.Nodes, &Node{K: "each", Name: lv, E: &Expr{Op: "arr", Kids: []*Expr{eLit(vInt(int64(10 * (i + 1)))), eLit(vInt(int64(10*(i+1) + 1)))}},
				Body: []*Node{nText("{e" + tag), c07UseNode(u, i, xSlots, lv), nText("}")}})
		case 3:
			usesInsert = true
			insertBody = append(insertBody, nText("{ins"+tag), c07UseNode(u, i, xSlots, ""), nText("}"))
		case 4:
			wrap := &Node{K: "component", Name: "~y", HasArgs: true, Keys: []string{"a"}, Vals: []*Expr{eLit(vStr("w" + tag))},
				Slots: []SlotUse{{Name: "", Body: []*Node{nText("{in" + tag), c07UseNode(u, i, xSlots, ""), nText("}")}}}}
			page.Nodes = append(page.Nodes, wrap)
		}
	}
	files := map[string]*TplFile{"x": xf, "components/y": yf, "index": page}
	if usesInsert {
		page.Use = "lay"
		page.Nodes = append(page.Nodes, &Node{K: "insert", Name: "main", Body: insertBody})
		files["lay"] = lay
		b.tree.Files["lay.tw"] = printFile(lay)
		// page text outside inserts does not appear: the model drops it because only the layout is rendered
	}
	b.env = &tplEnv{files: files}
	b.data = map[string]Val{"o": vStr("O"), "v": vStr("V"), "e": vInt(5), "w": vStr("W")}
	if cs.Data == 1 {
		b.data["o"] = vInt(7)
	}
	if cs.Data == 2 {
		b.data["a"] = vStr("CA") // the caller has its own a
	}
	b.tree.Files["x.tw"] = printFile(xf)
	b.tree.Files["components/y.tw"] = printFile(yf)
	b.tree.Files["index.tw"] = printFile(page)
	switch cs.Special {
	case "undeclared-slot":
		b.tree.Files["index.tw"] = `@component("x")@slot("zz")body@end@end`
		b.loadErr = []string{"x"}
	case "undeclared-default-slot":
		b.tree.Files["x.tw"] = `<x>@slot("n")</x>`
		b.tree.Files["index.tw"] = `@component("x")@slot body@end@end`
		b.loadErr = []string{"x"}
	case "undeclared-slot-second-use": // the faulty use is the second use of the component in the file
		b.tree.Files["x.tw"] = `<x>@slot("n")</x>`
		b.tree.Files["index.tw"] = `@component("x")@slot("n")ok@end@end|@component("x")@slot("zz")body@end@end`
		b.loadErr = []string{"x"}
	case "slot-twice-second-use":
		b.tree.Files["x.tw"] = `<x>@slot("n")@slot</x>`
		b.tree.Files["index.tw"] = `@component("x")|@component("x")@slot("n")one@end@slot("n")two@end@end`
		b.loadErr = []string{"x"}
	case "undeclared-slot-after-other-component":
		b.tree.Files["x.tw"] = `<x>@slot("n")</x>`
		b.tree.Files["index.tw"] = `@component("~y", {a: 1})@slot d@end@end|@component("x")@slot("zz")body@end@end`
		b.loadErr = []string{"x"}
	case "undeclared-slot-in-unused-layout": // the faulty use sits in a layout file that no page uses
		b.tree.Files["x.tw"] = `<x>@slot("n")</x>`
		b.tree.Files["lonely.tw"] = `<l>@reserve("r")@component("x")@slot("zz")body@end@end</l>`
		b.tree.Files["index.tw"] = `plain`
		b.loadErr = []string{"x"}
	case "missing-component-in-unused-layout":
		b.tree.Files["lonely.tw"] = `<l>@reserve("r")@component("gone", {a: 1})</l>`
		b.tree.Files["index.tw"] = `plain`
		b.loadErr = []string{"gone"}
	case "slot-twice-in-used-layout":
		b.tree.Files["x.tw"] = `<x>@slot("n")@slot</x>`
		b.tree.Files["lay.tw"] = `<l>@reserve("r")@component("x")@slot("n")one@end@slot("n")two@end@end</l>`
		b.tree.Files["index.tw"] = `@use("lay")@insert("r")i@end`
		b.loadErr = []string{"x"}
	case "slot-twice":
		b.tree.Files["x.tw"] = `<x>@slot("n")@slot</x>`
		b.tree.Files["index.tw"] = `@component("x")@slot("n")one@end@slot("n")two@end@end`
		b.loadErr = []string{"x"}
	case "default-slot-twice":
		b.tree.Files["x.tw"] = `<x>@slot("n")@slot</x>`
		b.tree.Files["index.tw"] = `@component("x")@slot one@end@slot two@end@end`
		b.loadErr = []string{"x"}
	case "missing-component":
		delete(b.tree.Files, "x.tw")
		b.tree.Files["index.tw"] = `<p>@component("x", {a: 1})</p>`
		b.loadErr = []string{"x"}
	case "missing-alias-component":
		b.tree.Files["index.tw"] = `<p>@component("~nope")</p>`
		b.loadErr = []string{"nope"}
	}
	return b
}

func c07Check(cs c07Case) (ok bool, sig, expected, observed string) {
	b := c07Build(cs)
	b.tree.write()
	tpl, lo := b.tree.load()
	desc := fmt.Sprintf("%v", b.tree.Files)
	if lo.Kind == KPanic || lo.Kind == KHang {
		return false, "load-" + lo.Kind + "@" + lo.Site, "no crash for " + desc, lo.String()
	}
	feature := func() string {
		set := map[string]bool{}
		nx := 0
		for _, u := range cs.Uses {
			if u.Comp == 0 {
				nx++
			}
			set[fmt.Sprintf("place%d", u.Place)] = true
			if (u.Arg >= 4 && u.Arg <= 5) || u.Arg == 9 {
				set[fmt.Sprintf("shadow-arg%d", u.Arg)] = true
			}
			if u.Slots > 0 {
				set["slots"] = true
			}
		}
		if nx >= 2 {
			set["same-component-twice"] = true
		}
		var f []string
		for k := range set {
			f = append(f, k)
		}
		sort.Strings(f)
		if cs.Special != "" {
			f = append(f, cs.Special)
		}
		return strings.Join(f, "+")
	}
	if b.loadErr != nil {
		expected = fmt.Sprintf("loading fails with an error naming the component %v for %s", b.loadErr, desc)
		if lo.Kind != KErr {
			return false, "fault-accepted/" + cs.Special, expected, lo.String()
		}
		for _, n := range b.loadErr {
			if strings.Contains(lo.Msg, "'"+n+"'") || strings.Contains(lo.Msg, n+".tw") || strings.Contains(lo.Msg, "/"+n) || strings.Contains(lo.Msg, `"`+n+`"`) {
				return true, "", expected, lo.String()
			}
		}
		return false, "error-does-not-name-component/" + cs.Special, expected, lo.String()
	}
	if lo.Kind != KOut {
		return false, "load-failed/" + feature(), "templates load for " + desc, lo.String()
	}
	out, st := renderModel(b.env, "index", b.data)
	exp := expectOf(out, st)
	o := render(tpl, "index", dataMap(b.data))
	expected = exp.String() + " for " + desc + fmt.Sprintf(" data=%v", b.data)
	good, why := conforms(exp, o)
	if !good {
		if o.Kind == KPanic || o.Kind == KHang {
			return false, o.Kind + "@" + o.Site, expected, o.String()
		}
		return false, why + "/" + feature(), expected, o.String()
	}
	// rendering twice gives the same result (a use evaluated repeatedly is independent)
	if o2 := render(tpl, "index", dataMap(b.data)); o2.Kind != o.Kind || o2.Out != o.Out {
		return false, "second-render-differs/" + feature(), expected, o2.String()
	}
	return true, "", expected, o.String()
}

func c07Run(c *Ctx) {
	enterScratch()
	order := int64(0)
	do := func(cs c07Case) bool {
		if c.Expired() {
			return false
		}
		for _, u := range cs.Uses {
			if u.Place == 4 && (u.Arg == 0 || u.Arg == 7) {
				return true // inside another component's slot the visibility of that component's arguments is not stated: a must be passed explicitly and must not be read from the surrounding scope
			}
		}
		order++
		c.Trace(cs)
		ok, sig, exp, obs := c07Check(cs)
		c.Evals(1)
		nx := 0
		for _, u := range cs.Uses {
			if u.Comp == 0 {
				nx++
			}
		}
		c.Case(nx >= 2 || cs.Special != "")
		c.OutcomeClass(strings.SplitN(obs, "(", 2)[0])
		if order%401 == 1 {
			c.Sample(map[string]any{"case": cs, "expected": clip(exp, 500), "observed": clip(obs, 200)})
		}
		if !ok {
			c.Report(sig, int64(len(cs.Uses))*100000000+int64(len(cs.X))*10000000+order%10000000, cs, exp, obs, "")
		}
		return true
	}
	// a component may show one slot at several places (the same placeholder name twice): every placeholder is
	// replaced. Only three or more placeholders of one name are left out (nothing new, larger space).
	distinctSlots := func(idx []int) bool {
		seen := map[string]int{}
		for _, ix := range idx {
			it := c07Items[ix]
			switch it {
			case "IFSD", "ELIFSD", "EACHELSESD":
				it = "SD"
			case "EACHSN", "FORELSESN":
				it = "SN"
			case "ELSESM":
				it = "SM"
			}
			if it == "SD" || it == "SN" || it == "SM" {
				seen[it]++
				if seen[it] > 2 {
					return false
				}
			}
		}
		return true
	}
	xMax1, xMax2 := 3, 2
	if c.Thorough() {
		xMax1, xMax2 = 4, 3
	}
	// one use: every component file x every use descriptor
	for k := 1; k <= xMax1; k++ {
		nIt := len(c07Items)
		if k == 4 {
			nIt = 8
		}
		if k == 3 && !c.Thorough() {
			nIt = 10 // quick tier: three-item components over the first ten item kinds (all of them in the thorough tier)
		}
		if !seqEnum(c, nIt, k, func(idx []int) bool {
			if !distinctSlots(idx) {
				return true
			}
			x := append([]int{}, idx...)
			for comp := 0; comp < 2; comp++ {
				for arg := 0; arg < c07ArgVariants; arg++ {
					for sl := 0; sl < c07SlotVariants; sl++ {
						for pl := 0; pl < 5; pl++ {
							if comp == 1 && k > 1 {
								continue
							}
							if !do(c07Case{X: x, Uses: []c07Use{{comp, arg, sl, pl}}, Data: int(order % 3)}) {
								return false
							}
							// white space and comments around a use at top level (components of one item are enough)
							if pl == 0 && k == 1 && arg < 2 {
								for gap := 1; gap <= 6; gap++ {
									if !do(c07Case{X: x, Uses: []c07Use{{comp, arg, sl, pl}}, Data: 0, Gap: gap}) {
										return false
									}
								}
							}
						}
					}
				}
			}
			return true
		}) {
			return
		}
	}
	// two and three uses of the same component with different arguments and slot bodies
	placePairs := [][]int{{0, 0}, {0, 2}, {1, 3}, {4, 0}, {2, 2}, {3, 3}}
	for k := 1; k <= xMax2; k++ {
		nIt := len(c07Items)
		if k == 3 {
			nIt = 8 // three-item components in multi-use pages: the eight top-level item kinds
		}
		if !seqEnum(c, nIt, k, func(idx []int) bool {
			if !distinctSlots(idx) {
				return true
			}
			x := append([]int{}, idx...)
			for a1 := 0; a1 < 8; a1++ {
				for s1 := 0; s1 < c07SlotVariants; s1++ {
					for a2 := 0; a2 < 8; a2++ {
						for s2 := 0; s2 < c07SlotVariants; s2++ {
							for pi, pp := range placePairs {
								if !c.Thorough() && (pi >= 3 || (k == 2 && pi >= 1)) && (a1+s1+a2+s2)%3 != 0 {
									continue // quick tier: the later place pairs (for two-item components all but the first) take every third combination
								}
								if !do(c07Case{X: x, Uses: []c07Use{{0, a1, s1, pp[0]}, {0, a2, s2, pp[1]}}, Data: (a1 + s2) % 3}) {
									return false
								}
								// mixed with a use of Y in between, and a third use of X
								if (a1+a2)%2 == 0 && pi < 2 {
									if !do(c07Case{X: x, Uses: []c07Use{{0, a1, s1, pp[0]}, {1, a2, 1, 0}, {0, a2, s2, pp[1]}}, Data: 0}) {
										return false
									}
									if !do(c07Case{X: x, Uses: []c07Use{{0, a1, s1, pp[0]}, {0, a2, s2, pp[1]}, {0, (a1 + 1) % c07ArgVariants, (s2 + 1) % c07SlotVariants, 0}}, Data: 1}) {
										return false
									}
								}
							}
						}
					}
				}
			}
			return true
		}) {
			return
		}
	}
	if c.Mine() {
		for _, sp := range []string{"undeclared-slot", "undeclared-default-slot", "slot-twice", "default-slot-twice", "missing-component", "missing-alias-component",
			"undeclared-slot-second-use", "slot-twice-second-use", "undeclared-slot-after-other-component",
			"undeclared-slot-in-unused-layout", "missing-component-in-unused-layout", "slot-twice-in-used-layout"} {
			if !do(c07Case{X: []int{0, 4, 5}, Special: sp}) {
				return
			}
		}
	}
}

func init() {
	p := &Property{
		ID:    "C07",
		Level: "exploration",
		Rule: "bounded-exhaustive template trees on disk: every component file that is a sequence of <=k items from {text, {{ a }}, {{ o }} (outer variable), @if(a)…@else…@end, @slot, @slot(\"n\"), @slot(\"m\"), and the same placeholders nested inside @if / @each / @else blocks of the component}, a placeholder name occurring at most twice; pages with one, two and three uses — the same component used repeatedly with different argument variants (none, literal, data variable, loop variable / concatenation, shadowing an outer variable with the same and with a different type, falsy) and slot variants (none, all declared, first only, last only, bodies unique per use), a second component addressed through ~, placed at top level, inside @if, inside @each, inside an insert of a layout page and inside another component's slot body; plus undeclared / duplicate slots and missing component files.  [as built: the component also prints a surrounding variable that a loop at the place of use shadows; slot bodies written in a loop print the loop variable]" +
			"Reference: RefTW; every use carries unique markers, so cross-talk between uses is visible. Non-trivial: the page uses the same component at least twice, or is a fault case",
		Bounds: func(tier string) map[string]any {
			if tier == "thorough" {
				return map[string]any{"component_items_single_use": 4, "component_items_multi_use": 3, "max_uses": 3}
			}
			return map[string]any{"component_items_single_use": 3, "item_alphabet_len3": 10, "component_items_multi_use": 2, "max_uses": 3}
		},
		Assume: []string{"slot bodies use only text and data-map variables; component files do not use components themselves"},
		Run:    c07Run,
	}
	registerTyped(p, c07Check)
}
