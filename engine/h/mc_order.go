package main

import (
	"fmt"
	"sync"

	rt "github.com/textwire/textwire/v2/zzverifrt"
)

// Deviation-bounded DFS over map-iteration choice points (DESIGN.md section 3, explorer 3).
// Every range over a map in the instrumented module asks rt.OrderHook for the order in which
// the key-sorted entries are visited; answer 0 is the sorted order, answers 1..n!-1 the other
// permutations. An execution is identified by its vector of answers.

type orderPoint struct {
	Site   int `json:"site"`
	N      int `json:"n"`
	Choice int `json:"choice"`
}

type orderRun struct {
	Points  []orderPoint
	Outcome string
}

func factorial(n int) int {
	f := 1
	for i := 2; i <= n; i++ {
		f *= i
	}
	return f
}

// orderAnswers: number of answers of a choice point with n entries. Maps with more than 5
// entries get the three answers identity / reversed / rotated (cap stated in the evidence).
func orderAnswers(n int) int {
	if n <= 1 {
		return 1
	}
	if n > 5 {
		return 3
	}
	return factorial(n)
}

func kthPermutation(n, k int) []int {
	if n > 5 {
		p := make([]int, n)
		for i := range p {
			switch k {
			case 1:
				p[i] = n - 1 - i
			case 2:
				p[i] = (i + 1) % n
			default:
				p[i] = i
			}
		}
		return p
	}
	elems := make([]int, n)
	for i := range elems {
		elems[i] = i
	}
	out := make([]int, 0, n)
	for i := n; i >= 1; i-- {
		f := factorial(i - 1)
		idx := k / f
		k %= f
		out = append(out, elems[idx])
		elems = append(elems[:idx], elems[idx+1:]...)
	}
	return out
}

type orderDivergence struct{ msg string }

// runWithOrders executes f with the given answer prefix (default answer 0 afterwards).
// expect, when non-nil, is the parent's point list: the replayed prefix must hit the same sites
// with the same arity, otherwise the replay diverged (hard error).
func runWithOrders(prefix []int, expect []orderPoint, f func() string) orderRun {
	var run orderRun
	idx := 0
	// The hook may be called from goroutines started by the code under test: it is serialised, and a
	// divergence is recorded and raised only after f has returned (a panic in a foreign goroutine would
	// kill the process instead of reaching the explorer).
	var mu sync.Mutex
	diverged := ""
	rt.OrderHook = func(site, n int) []int {
		mu.Lock()
		defer mu.Unlock()
		choice := 0
		if n >= 2 {
			if diverged == "" && idx < len(prefix) {
				choice = prefix[idx]
				if expect != nil && (expect[idx].Site != site || expect[idx].N != n) {
					diverged = fmt.Sprintf("replay diverged at choice point %d: site %d/%d entries, recorded site %d/%d entries", idx, site, n, expect[idx].Site, expect[idx].N)
					choice = 0
				} else if choice >= orderAnswers(n) {
					diverged = fmt.Sprintf("answer %d out of range at choice point %d (%d entries)", choice, idx, n)
					choice = 0
				}
			}
			run.Points = append(run.Points, orderPoint{site, n, choice})
			idx++
		}
		return kthPermutation(n, choice)
	}
	defer func() { rt.OrderHook = nil }()
	run.Outcome = f()
	mu.Lock()
	d := diverged
	if d == "" && idx < len(prefix) {
		d = fmt.Sprintf("replay diverged: the execution ended after %d choice points, the recorded prefix has %d", idx, len(prefix))
	}
	mu.Unlock()
	if d != "" {
		panic(orderDivergence{d})
	}
	return run
}

type orderExplorer struct {
	bound      int
	executions int64
	points     int64
	maxPoints  int
	outcomes   map[string][]int // distinct outcome -> first answer vector producing it
	diverged   string
	budget     int64
	repeat     int // the default execution is run this many times; all runs must agree (0 = once)
}

// explore runs every execution with at most `bound` non-default answers.
func (e *orderExplorer) explore(f func() string) {
	e.outcomes = map[string][]int{}
	var rec func(prefix []int, expect []orderPoint, dev int)
	rec = func(prefix []int, expect []orderPoint, dev int) {
		if e.diverged != "" || (e.budget > 0 && e.executions >= e.budget) {
			return
		}
		var run orderRun
		func() {
			defer func() {
				if r := recover(); r != nil {
					if d, ok := r.(orderDivergence); ok {
						e.diverged = d.msg
						return
					}
					panic(r)
				}
			}()
			run = runWithOrders(prefix, expect, f)
		}()
		if e.diverged != "" {
			return
		}
		if len(prefix) == 0 {
			// the same answers must give the same execution: anything else is nondeterminism the
			// explorer does not control (goroutine scheduling, clocks, randomness, addresses)
			for r := 1; r < e.repeat && e.diverged == ""; r++ {
				func() {
					defer func() {
						if x := recover(); x != nil {
							if d, ok := x.(orderDivergence); ok {
								e.diverged = d.msg
								return
							}
							panic(x)
						}
					}()
					again := runWithOrders(nil, nil, f)
					e.executions++
					if again.Outcome != run.Outcome {
						e.diverged = fmt.Sprintf("the default answers gave two outcomes: %.300s  ||  %.300s", run.Outcome, again.Outcome)
					} else if len(again.Points) != len(run.Points) {
						e.diverged = fmt.Sprintf("the default answers gave %d and then %d choice points", len(run.Points), len(again.Points))
					}
				}()
			}
			if e.diverged != "" {
				return
			}
		}
		e.executions++
		e.points += int64(len(run.Points))
		if len(run.Points) > e.maxPoints {
			e.maxPoints = len(run.Points)
		}
		if _, ok := e.outcomes[run.Outcome]; !ok {
			vec := make([]int, len(run.Points))
			for i, p := range run.Points {
				vec[i] = p.Choice
			}
			e.outcomes[run.Outcome] = vec
		}
		if dev >= e.bound {
			return
		}
		for i := len(prefix); i < len(run.Points); i++ {
			na := orderAnswers(run.Points[i].N)
			for alt := 1; alt < na; alt++ {
				next := make([]int, i+1)
				for j := 0; j < i; j++ {
					next[j] = run.Points[j].Choice
				}
				next[i] = alt
				rec(next, run.Points[:i+1], dev+1)
			}
		}
	}
	rec(nil, nil, 0)
}
