package main

import (
	"fmt"

	rt "github.com/textwire/textwire/v2/zzverifrt"
)

// Deviation-bounded DFS over map-iteration choice points (DESIGN.md section 3, explorer 3).
// Every range over a map in the instrumented module asks rt.OrderHook for the order in which
// the key-sorted entries are visited; answer 0 is the sorted order, answers 1..n!-1 the other
// permutations. An execution is identified by its vector of answers.

type orderPoint struct {
	Site   int `json:"site"`
	N      int `json:"n"`
	Choice int `json:"choice"`
}

type orderRun struct {
	Points  []orderPoint
	Outcome string
}

func factorial(n int) int {
	f := 1
	for i := 2; i <= n; i++ {
		f *= i
	}
	return f
}

// orderAnswers: number of answers of a choice point with n entries. Maps with more than 5
// entries get the three answers identity / reversed / rotated (cap stated in the evidence).
func orderAnswers(n int) int {
	if n <= 1 {
		return 1
	}
	if n > 5 {
		return 3
	}
	return factorial(n)
}

func kthPermutation(n, k int) []int {
	if n > 5 {
		p := make([]int, n)
		for i := range p {
			switch k {
			case 1:
				p[i] = n - 1 - i
			case 2:
				p[i] = (i + 1) % n
			default:
				p[i] = i
			}
		}
		return p
	}
	elems := make([]int, n)
	for i := range elems {
		elems[i] = i
	}
	out := make([]int, 0, n)
	for i := n; i >= 1; i-- {
		f := factorial(i - 1)
		idx := k / f
		k %= f
		out = append(out, elems[idx])
		elems = append(elems[:idx], elems[idx+1:]...)
	}
	return out
}

type orderDivergence struct{ msg string }

// runWithOrders executes f with the given answer prefix (default answer 0 afterwards).
// expect, when non-nil, is the parent's point list: the replayed prefix must hit the same sites
// with the same arity, otherwise the replay diverged (hard error).
func runWithOrders(prefix []int, expect []orderPoint, f func() string) orderRun {
	var run orderRun
	idx := 0
	rt.OrderHook = func(site, n int) []int {
		choice := 0
		if n >= 2 {
			if idx < len(prefix) {
				choice = prefix[idx]
				if expect != nil && (expect[idx].Site != site || expect[idx].N != n) {
					panic(orderDivergence{fmt.Sprintf("replay diverged at choice point %d: site %d/%d entries, recorded site %d/%d entries", idx, site, n, expect[idx].Site, expect[idx].N)})
				}
				if choice >= orderAnswers(n) {
					panic(orderDivergence{fmt.Sprintf("answer %d out of range at choice point %d (%d entries)", choice, idx, n)})
				}
			}
			run.Points = append(run.Points, orderPoint{site, n, choice})
			idx++
		}
		return kthPermutation(n, choice)
	}
	defer func() { rt.OrderHook = nil }()
	run.Outcome = f()
	return run
}

type orderExplorer struct {
	bound      int
	executions int64
	points     int64
	maxPoints  int
	outcomes   map[string][]int // distinct outcome -> first answer vector producing it
	diverged   string
	budget     int64
}

// explore runs every execution with at most `bound` non-default answers.
func (e *orderExplorer) explore(f func() string) {
	e.outcomes = map[string][]int{}
	var rec func(prefix []int, expect []orderPoint, dev int)
	rec = func(prefix []int, expect []orderPoint, dev int) {
		if e.diverged != "" || (e.budget > 0 && e.executions >= e.budget) {
			return
		}
		var run orderRun
		func() {
			defer func() {
				if r := recover(); r != nil {
					if d, ok := r.(orderDivergence); ok {
						e.diverged = d.msg
						return
					}
					panic(r)
				}
			}()
			run = runWithOrders(prefix, expect, f)
		}()
		if e.diverged != "" {
			return
		}
		e.executions++
		e.points += int64(len(run.Points))
		if len(run.Points) > e.maxPoints {
			e.maxPoints = len(run.Points)
		}
		if _, ok := e.outcomes[run.Outcome]; !ok {
			vec := make([]int, len(run.Points))
			for i, p := range run.Points {
				vec[i] = p.Choice
			}
			e.outcomes[run.Outcome] = vec
		}
		if dev >= e.bound {
			return
		}
		for i := len(prefix); i < len(run.Points); i++ {
			na := orderAnswers(run.Points[i].N)
			for alt := 1; alt < na; alt++ {
				next := make([]int, i+1)
				for j := 0; j < i; j++ {
					next[j] = run.Points[j].Choice
				}
				next[i] = alt
				rec(next, run.Points[:i+1], dev+1)
			}
		}
	}
	rec(nil, nil, 0)
}
