package main

import (
	"fmt"
	"strings"

	textwire "github.com/textwire/textwire/v2"
	"github.com/textwire/textwire/v2/config"
)

// C17 — Response writes the page or one error page, and leaks no detail unless debugging.

type c17Case struct {
	Debug  bool `json:"debug"`
	ErrPg  int  `json:"error_page"`       // 0 none, 1 valid, 2 missing, 3 fails at run time, 4 valid in a sub-directory, 5 names a layout file (which is not renderable)
	Page   int  `json:"page"`             // index into c17Pages
	Kind   int  `json:"kind"`             // which fault the failing page contains
	Second bool `json:"second,omitempty"` // the same call issued a second time (same body expected)
	Prior  int  `json:"prior,omitempty"`  // 0 none; 1: a failing Response under the opposite debug mode was served earlier in this process; 2: one under the same mode with another error; 3: the templates were loaded under the opposite debug mode and Configure switched it afterwards
}

var c17Pages = []string{"ok", "fail-start", "fail-middle", "fail-end", "fail-in-layout", "fail-in-component", "fail-second-pass", "unknown", "fail-in-insert", "fail-after-component", "fail-in-insert-arg", "layout-name", "fail-in-slot-body"}

var c17Faults = []struct{ src, msgPart string }{
	{"{{ secretVar }}", "secretVar"},
	{`{{ 1 + "SECRETMSG" }}`, "type mismatch"},
	{"{{ 10 / 0 }}", "division by zero"},
	{"{{ 'SECRETMSG' % 'de' }}", "operator"}, // the message contains a per cent sign
	// the failure sits in other evaluation sites: a later element of an expression list, an object value, a
	// ternary arm, a directive header, an assignment
	{"{{ [1, secretVar] }}", "secretVar"},
	{`{{ "abc".at(0, secretVar) }}`, "secretVar"},
	{"{{ {a: 1, b: secretVar}.a }}", "secretVar"},
	{"{{ true ? secretVar : 1 }}", "secretVar"},
	{"@if(secretVar)x@end", "secretVar"},
	{"@each(v in [1, secretVar])x@end", "secretVar"},
	{"@for(i = 0; i < secretVar; i++)x@end", "secretVar"},
	{"{{ x = [[1], [2, secretVar]] }}", "secretVar"},
	{"{{ secretVar" + strings.Repeat("Long", 50) + " }}", "secretVar"}, // a message of more than 200 bytes
	{"@dump(secretVar)", "secretVar"},
	{"@dump(1, [secretVar])", "secretVar"},
}

const c17Marker = "MARK-"

func c17Tree(cs c17Case) (Tree, string) {
	t := Tree{Dir: "t", Ext: ".tw", Files: map[string]string{}, Debug: cs.Debug}
	fault := c17Faults[cs.Kind].src
	t.Files["lay.tw"] = "<lay>" + c17Marker + "L @reserve(\"a\")</lay>"
	t.Files["comp.tw"] = "<c>" + c17Marker + "C {{ a }}</c>"
	name := "p"
	switch c17Pages[cs.Page] {
	case "ok":
		t.Files["p.tw"] = c17Marker + "1 fine {{ 1 + 2 }} 100% %d %s @component(\"comp\", {a: 5})\n" + c17Marker + "2"
	case "fail-start":
		t.Files["p.tw"] = fault + "\n" + c17Marker + "1 text\n" + c17Marker + "2"
	case "fail-middle":
		t.Files["p.tw"] = c17Marker + "1 text\n" + fault + "\n" + c17Marker + "2"
	case "fail-end":
		t.Files["p.tw"] = c17Marker + "1 text\n" + c17Marker + "2\n" + fault
	case "fail-in-layout":
		t.Files["lay.tw"] = "<lay>" + c17Marker + "L @reserve(\"a\")\n" + fault + "</lay>"
		t.Files["p.tw"] = `@use("lay")@insert("a")` + c17Marker + "1@end"
	case "fail-in-insert":
		t.Files["p.tw"] = `@use("lay")@insert("a")` + c17Marker + "1\n" + fault + "@end"
	case "fail-in-insert-arg":
		if !strings.HasPrefix(fault, "{{ ") || strings.Contains(fault, " = ") {
			fault = c17Faults[0].src // directives and assignments cannot stand in an argument
		}
		expr := strings.TrimSuffix(strings.TrimPrefix(fault, "{{ "), " }}")
		t.Files["p.tw"] = `@use("lay")` + c17Marker + `1 @insert("a", ` + expr + ")"
	case "fail-in-component":
		t.Files["comp.tw"] = "<c>" + c17Marker + "C {{ a }}\n" + fault + "</c>"
		t.Files["p.tw"] = c17Marker + "1 @component(\"comp\", {a: 5}) " + c17Marker + "2"
	case "fail-after-component":
		t.Files["p.tw"] = c17Marker + "1 @component(\"comp\", {a: 5})\n" + fault + c17Marker + "2"
	case "fail-in-slot-body":
		t.Files["box.tw"] = "<box>" + c17Marker + "B @slot</box>"
		t.Files["p.tw"] = c17Marker + "1 @component(\"box\")@slot " + c17Marker + "S\n" + fault + "@end@end " + c17Marker + "2"
	case "fail-second-pass":
		t.Files["p.tw"] = "@each(v in [1, 2])" + c17Marker + "{{ v }} @if(v == 2)" + fault + "@end@end"
	case "unknown":
		t.Files["p.tw"] = c17Marker + "1 exists"
		name = "nope/missing"
	case "layout-name": // the name of a file that was loaded as a layout: not a renderable template
		t.Files["p.tw"] = c17Marker + "1 exists"
		name = "lay"
	}
	switch cs.ErrPg {
	case 1:
		t.ErrorPage = "err"
		// (the page has a variable of its own that is named like an entry of the failed page's data, with another type)
		t.Files["err.tw"] = "{{ x = \"mine\" }}CUSTOM-ERROR-PAGE {{ 40 + 2 }} 50% %v off"
	case 2:
		t.ErrorPage = "noerrpage"
	case 3:
		t.ErrorPage = "err"
		t.Files["err.tw"] = "CUSTOM {{ undefinedInErrorPage }}"
	case 5:
		t.ErrorPage = "lay" // the layout of the tree: loaded, but not a renderable template
	case 4:
		t.ErrorPage = "errors/e500"
		t.Files["errors/e500.tw"] = "CUSTOM-ERROR-PAGE {{ 40 + 2 }} 50% %v off"
	}
	return t, name
}

func c17Check(cs c17Case) (ok bool, sig, expected, observed string) {
	t, name := c17Tree(cs)
	keep := false
	if cs.Prior == 3 {
		t.Debug = !cs.Debug
	}
	if cs.Prior == 1 || cs.Prior == 2 {
		// an earlier failing Response in the same process, under another configuration / with another error
		prior := c17Case{Debug: cs.Debug, ErrPg: 0, Page: 2, Kind: (cs.Kind + 1) % len(c17Faults)}
		if cs.Prior == 1 {
			prior.Debug = !cs.Debug
		}
		pt, pname := c17Tree(prior)
		pt.write()
		if ptpl, plo := pt.load(); plo.Kind == KOut {
			respond(ptpl, pname, map[string]any{"x": 0})
		}
		keep = true
	}
	t.write()
	var tpl *textwire.Template
	var lo Outcome
	if keep {
		tpl, lo = t.loadKeep()
	} else {
		tpl, lo = t.load()
	}
	cfg := fmt.Sprintf("debug=%v errorPage=%d page=%s fault=%d prior=%d", cs.Debug, cs.ErrPg, c17Pages[cs.Page], cs.Kind, cs.Prior)
	if lo.Kind != KOut {
		return false, "load-failed", "the tree loads (" + cfg + ")", lo.String()
	}
	if cs.Prior == 3 {
		textwire.Configure(&config.Config{DebugMode: cs.Debug}) // the debug mode in force is the configured one
	}
	o, body := respond(tpl, name, map[string]any{"x": 1})
	if cs.Second {
		o, body = respond(tpl, name, map[string]any{"x": 1})
	}
	bad := func(why, exp string) (bool, string, string, string) {
		return false, why + "/" + fmt.Sprintf("debug=%v/errpage%d/%s", cs.Debug, cs.ErrPg, c17Pages[cs.Page]), exp + " (" + cfg + ")", fmt.Sprintf("error=%s body=%q", o.String(), clip(body, 700))
	}
	if o.Kind == KPanic || o.Kind == KHang {
		return false, o.Kind + "@" + o.Site, "no crash (" + cfg + ")", o.String()
	}
	if c17Pages[cs.Page] == "ok" {
		want := render(tpl, name, map[string]any{"x": 1})
		if o.Kind != KOut {
			return bad("error-on-success", "nil error")
		}
		if want.Kind != KOut || body != want.Out || !strings.Contains(body, c17Marker+"2") {
			return bad("body-is-not-the-page", "body = the rendered page")
		}
		return true, "", "the rendered page, nil error", "ok"
	}
	// failing renders
	if o.Kind != KErr {
		return bad("nil-error-on-failure", "a non-nil error")
	}
	if strings.Contains(body, c17Marker) {
		return bad("partial-page-in-body", "no part of the failed page in the body")
	}
	customWorks := cs.ErrPg == 1 || cs.ErrPg == 4
	switch {
	case !cs.Debug && customWorks:
		if body != "CUSTOM-ERROR-PAGE 42 50% %v off" {
			return bad("not-the-custom-page", "body = the custom error page")
		}
	case !cs.Debug && cs.ErrPg != 0:
		if body != "" {
			return bad("body-not-empty-when-custom-page-fails", "an empty body")
		}
	default:
		if !strings.Contains(body, "<html") || !strings.Contains(body, "</html>") {
			return bad("not-the-builtin-page", "body = the built-in error page")
		}
	}
	leakWords := []string{c17Faults[cs.Kind].msgPart, "secretVar", "SECRETMSG", "undefinedInErrorPage", scratchRoot, "/t/", ".tw", "Textwire ERROR", "p.tw"}
	if !cs.Debug {
		for _, w := range leakWords {
			if w != "" && strings.Contains(body, w) {
				label := w
				if w == scratchRoot {
					label = "<working directory>"
				}
				return bad("leak:"+label, "with debug mode off the body contains neither the message nor a path")
			}
		}
	} else {
		// message, absolute path and line of the failure
		fe := render(tpl, name, map[string]any{"x": 1})
		if fe.Kind != KErr {
			return bad("reference-render-did-not-fail", "String fails as well")
		}
		// the complete message, taken from the full text of the error (not from an accessor that may abbreviate it)
		fullMsg := fe.Msg
		if i := strings.Index(fe.Raw, "]:\n"); i >= 0 {
			fullMsg = fe.Raw[i+3:]
		}
		for _, w := range []string{fullMsg, fe.Path, fmt.Sprintf(":%d", fe.Line)} {
			if !strings.Contains(body, w) {
				return bad("debug-page-lacks-detail", "with debug mode on the body contains the message, the path and the line ("+w+")")
			}
		}
	}
	return true, "", "one error page, no leak", fmt.Sprintf("error=%s body=%dB", clip(o.Msg, 60), len(body))
}

func c17Run(c *Ctx) {
	enterScratch()
	order := int64(0)
	bodies := map[string]map[string]bool{} // non-interference: debug-off configuration -> distinct bodies over all failing pages
	for _, debug := range []bool{false, true} {
		for ep := 0; ep < 6; ep++ {
			for pg := range c17Pages {
				if !c.Mine() {
					continue
				}
				for kind := range c17Faults {
					for v := 0; v < 5; v++ {
						if c.Expired() {
							return
						}
						cs := c17Case{Debug: debug, ErrPg: ep, Page: pg, Kind: kind, Second: v == 1}
						if v >= 2 {
							cs.Prior = v - 1
						}
						order++
						c.Trace(cs)
						ok, sig, exp, obs := c17Check(cs)
						c.Evals(1)
						c.Case(c17Pages[pg] != "ok")
						c.Sample(map[string]any{"case": cs, "observed": clip(obs, 200)})
						if !ok {
							c.Report(sig, order, cs, exp, obs, "")
						}
						_ = bodies
					}
				}
			}
		}
	}
	// non-interference of the debug-off body: identical for every failing template and error kind
	if c.Shard == 0 {
		for ep := 0; ep < 5; ep++ {
			first := ""
			for pg := range c17Pages {
				if c17Pages[pg] == "ok" {
					continue
				}
				for kind := range c17Faults {
					cs := c17Case{Debug: false, ErrPg: ep, Page: pg, Kind: kind}
					t, name := c17Tree(cs)
					t.write()
					tpl, lo := t.load()
					if lo.Kind != KOut {
						continue
					}
					_, body := respond(tpl, name, nil)
					c.Evals(1)
					if first == "" {
						first = body + "\x00"
					} else if first != body+"\x00" {
						c.Report(fmt.Sprintf("debug-off-body-depends-on-the-failure/errpage%d", ep), 1000, cs,
							"with debug mode off the body is identical for every failing template and error kind", fmt.Sprintf("two different bodies (%d vs %d bytes)", len(first)-1, len(body)), "")
					}
				}
			}
		}
	}
}

func init() {
	p := &Property{
		ID:    "C17",
		Level: "exploration",
		Rule: "complete product: {debug on, off} x {no / valid / missing / run-time-failing / nested-directory custom error page} x {succeeding page; page failing at its start / middle / end after marker output; failing inside its layout, inside an insert, inside a component, after a component, in the second pass of a loop; unknown template} x four error kinds (one whose message contains a per cent sign; pages and the custom error page contain per cent signs too) x {first call, repeated call, after an earlier failing Response served under the opposite debug mode in the same process, after one under the same mode with another error}; plus a non-interference pass: with debug off the body must be byte-identical for every failing template and error kind.  [as built: 15 fault forms (failing identifier / operator / division / modulo, and a failure in a later array element, a later call argument, an object value, a ternary arm, @if / @each / @for headers, a nested assignment, @dump arguments); variants first / second call / prior failing Response under the opposite or same debug mode / loaded under the opposite debug mode then Configure]" +
			"Non-trivial: the render fails",
		Bounds: func(tier string) map[string]any {
			return map[string]any{"configurations": 2 * 6 * len(c17Pages) * len(c17Faults) * 5, "complete": true}
		},
		Assume:  []string{"the built-in page is recognised by its <html> frame; leak words are the error message parts, identifiers of the failing page, the scratch directory, template file names and the 'Textwire ERROR' prefix"},
		Workers: 8,
		Run:     c17Run,
	}
	registerTyped(p, c17Check)
}
