package main

import (
	"fmt"
	"strings"

	textwire "github.com/textwire/textwire/v2"
)

// C06 — a page using a layout renders the layout with reserves filled by its inserts.

type c06Case struct {
	Layout  []int  `json:"layout"`   // indices into the layout item alphabet
	UseForm int    `json:"use_form"` // 0: @use("lay")   1: @use("~lay") = layouts/lay   2: a name with a tilde inside   3: @use("lay") written behind the inserts   4: a layout whose name ends in the extension
	InsA    int    `json:"ins_a"`    // 0 absent, 1.. forms
	InsB    int    `json:"ins_b"`
	BFirst  bool   `json:"b_first,omitempty"`
	Junk    bool   `json:"junk,omitempty"` // text before / between / after the inserts
	Data    int    `json:"data"`           // 0: v bound to "V", 1: v unbound, 2: v bound to 0 (falsy)
	Cfg     int    `json:"cfg"`            // 0: dir t, ext .tw   1: dir tpl/views, ext .tw.html
	Special string `json:"special,omitempty"`
	Prior   bool   `json:"prior,omitempty"` // another directory with files of the same names (other layout, other pages) was loaded and rendered earlier in the process
}

var c06LayoutItems = []string{"T", "Ra", "Rb", "IFa", "IFb", "IFFa", "EACHa", "EACHb", "PV", "T2", "IFEa", "AW", "PW", "COMP"}

func c06LayoutNode(ix, pos int) []*Node {
	res := func(n string) *Node { return &Node{K: "reserve", Name: n} }
	switch c06LayoutItems[ix] {
	case "T":
		return []*Node{nText(fmt.Sprintf("<L%d>", pos))}
	case "T2":
		return []*Node{nText("\n  <p>x</p>\n")}
	case "Ra":
		return []*Node{res("a")}
	case "Rb":
		return []*Node{res("b")}
	case "IFa":
		return []*Node{{K: "if", E: eLit(vBool(true)), Body: []*Node{nText("("), res("a"), nText(")")}}}
	case "IFb":
		return []*Node{{K: "if", E: eVar("v"), Body: []*Node{nText("("), res("b"), nText(")")}, HasElse: true, Else: []*Node{nText("(nb)")}}}
	case "IFFa":
		return []*Node{{K: "if", E: eLit(vBool(false)), Body: []*Node{nText("("), res("a"), nText(")")}}}
	case "IFEa":
		return []*Node{{K: "if", E: eLit(vInt(0)), Body: []*Node{nText("no")}, HasElse: true, Else: []*Node{nText("{e"), res("a"), nText("e}")}}}
	case "EACHa":
		return []*Node{{K: "each", Name: "i", E: &Expr{Op: "arr", Kids: []*Expr{eLit(vInt(1)), eLit(vInt(2))}}, Body: []*Node{nText("<"), nPrint(eVar("i")), res("a"), nText(">")}}}
	case "EACHb":
		return []*Node{{K: "each", Name: "i", E: &Expr{Op: "arr", Kids: []*Expr{eLit(vInt(1)), eLit(vInt(2))}}, Body: []*Node{nText("<"), res("b"), nText(">")}}}
	case "PV":
		return []*Node{nText("[v="), nPrint(eVar("v")), nText("]")}
	case "COMP":
		return []*Node{{K: "component", Name: "lc", HasArgs: true, Keys: []string{"a"}, Vals: []*Expr{eVar("v")}}}
	case "AW":
		return []*Node{nAssign("w", eLit(vStr("light")))}
	case "PW":
		return []*Node{nText("[w="), nPrint(eVar("w")), nText("]")}
	}
	panic("harness bug")
}

func c06ItemReserve(ix int) string {
	it := c06LayoutItems[ix]
	if strings.HasSuffix(it, "a") {
		return "a"
	}
	if strings.HasSuffix(it, "b") {
		return "b"
	}
	return ""
}

const c06InsForms = 10

func c06Insert(name string, form int) *Node {
	tag := strings.ToUpper(name)
	switch form {
	case 1:
		return &Node{K: "insert", Name: name, Body: []*Node{nText("I" + tag + "-text")}}
	case 2:
		return &Node{K: "insert", Name: name, Body: []*Node{nText("I" + tag + "["), nPrint(eVar("v")), nText("]")}}
	case 3:
		return &Node{K: "insert", Name: name, Body: []*Node{{K: "if", E: eVar("v"), Body: []*Node{nText("I" + tag + "-yes")}, HasElse: true, Else: []*Node{nText("I" + tag + "-no")}}}}
	case 4:
		return &Node{K: "insert", Name: name, E: eLit(vStr("I" + tag + "-lit"))}
	case 5:
		return &Node{K: "insert", Name: name, E: eVar("v")}
	case 6:
		return &Node{K: "insert", Name: name, E: eBin("+", eLit(vStr("I"+tag+"+")), eVar("v"))}
	case 8: // the body reads the loop variable of the layout block around the reserve (in-place evaluation)
		// ... and ends that loop from inside the insert (the reserve is replaced by the insert content, directives included)
		return &Node{K: "insert", Name: name, Body: []*Node{nText("I" + tag + "[i="), nPrint(eVar("i")), nText("]"), {K: "breakif", E: eBin("==", eVar("i"), eLit(vInt(2)))}, nText("z")}}
	case 9: // the body uses a component (resolved for the page, evaluated where the reserve stands)
		return &Node{K: "insert", Name: name, Body: []*Node{nText("I" + tag + "{"), {K: "component", Name: "lc", HasArgs: true, Keys: []string{"a"}, Vals: []*Expr{eVar("v")}}, nText("}")}}
	case 7: // the body assigns a variable that the layout may read after the reserve
		return &Node{K: "insert", Name: name, Body: []*Node{nAssign("w", eLit(vStr("dark"+tag))), nText("I" + tag + "-set")}}
	}
	return nil
}

type c06Built struct {
	tree     Tree
	env      *tplEnv
	data     map[string]Val
	page     string
	loadErr  []string // when non-nil: loading (or rendering) must fail and the message must contain one of these
	anyPhase bool
}

func c06Build(cs c06Case) c06Built {
	var b c06Built
	ext := ".tw"
	b.tree = Tree{Dir: "t", Ext: ext, Files: map[string]string{}}
	if cs.Cfg == 1 {
		ext = ".tw.html"
		b.tree = Tree{Dir: "tpl/views", Ext: ext, Files: map[string]string{}}
	}
	layName, useName := "lay", "lay"
	if cs.UseForm == 1 {
		layName, useName = "layouts/lay", "~lay"
	}
	if cs.UseForm == 2 { // a tilde inside the name is a character like any other
		layName, useName = "shared/lay~old", "shared/lay~old"
	}
	if cs.UseForm == 4 { // the layout's name itself ends in the extension (file lay.tw.tw)
		layName, useName = "lay"+ext, "lay"+ext
	}
	var lnodes []*Node
	reserves := map[string]bool{}
	for pos, ix := range cs.Layout {
		lnodes = append(lnodes, c06LayoutNode(ix, pos)...)
		if r := c06ItemReserve(ix); r != "" {
			reserves[r] = true
		}
	}
	lay := &TplFile{Nodes: lnodes}
	page := &TplFile{Use: useName, UseLast: cs.UseForm == 3}
	ia, ib := c06Insert("a", cs.InsA), c06Insert("b", cs.InsB)
	ins := []*Node{ia, ib}
	if cs.BFirst {
		ins = []*Node{ib, ia}
	}
	if cs.Junk {
		page.Nodes = append(page.Nodes, nText("\njunk0 "))
	}
	for i, n := range ins {
		if n == nil {
			continue
		}
		page.Nodes = append(page.Nodes, n)
		if cs.Junk {
			page.Nodes = append(page.Nodes, nText(fmt.Sprintf(" junk%d\n", i+1)))
		}
	}
	// a second page that uses the same layout with other inserts (uses of one layout must not interact)
	page2 := &TplFile{Use: useName}
	for _, n := range []*Node{c06Insert("a", (cs.InsA+2)%c06InsForms), c06Insert("b", (cs.InsB+3)%c06InsForms)} {
		if n != nil && reserves[n.Name] {
			page2.Nodes = append(page2.Nodes, n, nText(" "))
		}
	}
	lcFile := &TplFile{Nodes: []*Node{nText("<lc "), nPrint(eVar("a")), nText(">")}}
	b.env = &tplEnv{files: map[string]*TplFile{layName: lay, "index": page, "zpage2": page2, "apage0": {Use: useName}, "lc": lcFile}}
	switch cs.Data {
	case 0:
		b.data = map[string]Val{"v": vStr("V")}
	case 2:
		b.data = map[string]Val{"v": vInt(0)}
	default:
		b.data = map[string]Val{}
	}
	// an insert that names no reserve of the layout is an error naming the insert
	for _, n := range ins {
		if n != nil && !reserves[n.Name] {
			b.loadErr = append(b.loadErr, "'"+n.Name+"'")
		}
	}
	b.tree.Files[layName+ext] = printFile(lay)
	b.tree.Files["index"+ext] = printFile(page)
	b.tree.Files["plain"+ext] = "plain page"
	b.tree.Files["lc"+ext] = printFile(lcFile)
	b.tree.Files["zpage2"+ext] = printFile(page2)
	b.tree.Files["apage0"+ext] = printFile(&TplFile{Use: useName})
	b.page = "index"
	switch cs.Special {
	case "duplicate-insert":
		dup := *ins[0]
		page.Nodes = append(page.Nodes, nText(" "), &dup)
		b.tree.Files["index"+ext] = printFile(page)
		b.loadErr = []string{"'" + ins[0].Name + "'"}
	case "missing-layout":
		delete(b.tree.Files, layName+ext)
		b.loadErr = []string{layName + ext}
	case "nested-duplicate-insert": // the second insert of the name sits inside the block of the first
		b.tree.Files["index"+ext] = `@use("` + useName + `")@insert("a")x@insert("a")y@end z@end`
		b.loadErr = []string{"'a'"}
	case "use-inside-insert": // not a layout that uses a layout, but it must not run away either
		b.tree.Files["index"+ext] = `@use("` + useName + `")@insert("a")x@use("` + useName + `")y@end`
		b.loadErr = []string{"use", "insert", "'a'"}
		b.anyPhase = true
	case "layout-uses-layout":
		b.tree.Files[layName+ext] = `@use("base")` + printFile(lay)
		b.tree.Files["base"+ext] = "BASE"
		b.loadErr = []string{"use"}
		b.anyPhase = true
	}
	return b
}

func c06Check(cs c06Case) (ok bool, sig, expected, observed string) {
	b := c06Build(cs)
	var tpl *textwire.Template
	var lo Outcome
	if !cs.Prior {
		b.tree.write()
	} else {
		decoy := Tree{Dir: "t0", Ext: ".tw", Files: map[string]string{
			"lay.tw": `DECOY-LAYOUT @reserve("a")|@reserve("b")`, "layouts/lay.tw": `DECOY-LAYOUT2 @reserve("a")|@reserve("b")`,
			"index.tw": `@use("lay")@insert("a", "decoy-a")`, "zpage2.tw": `@use("~lay")@insert("b")decoy-b@end`, "lc.tw": "<decoy-lc>", "plain.tw": "decoy plain"}}
		decoy.write()
		if dtpl, dlo := decoy.load(); dlo.Kind == KOut {
			render(dtpl, "index", dataMap(b.data))
			render(dtpl, "zpage2", dataMap(b.data))
		}
		b.tree.writeKeep()
		tpl, lo = b.tree.loadKeep()
	}
	if !cs.Prior {
		tpl, lo = b.tree.load()
	}
	desc := fmt.Sprintf("%v", b.tree.Files)
	if lo.Kind == KPanic || lo.Kind == KHang {
		return false, "load-" + lo.Kind + "@" + lo.Site, "no crash for " + desc, lo.String()
	}
	feature := func() string {
		var f []string
		for _, ix := range cs.Layout {
			if r := c06LayoutItems[ix]; r != "T" && r != "T2" {
				f = append(f, r)
			}
		}
		f = append(f, fmt.Sprintf("a%d", cs.InsA), fmt.Sprintf("b%d", cs.InsB))
		if cs.Special != "" {
			f = append(f, cs.Special)
		}
		return strings.Join(f, ",")
	}
	if b.loadErr != nil {
		expected = fmt.Sprintf("an error naming one of %v for %s", b.loadErr, desc)
		o := lo
		if lo.Kind == KOut && b.anyPhase {
			o = render(tpl, b.page, dataMap(b.data))
		}
		if o.Kind != KErr {
			return false, "fault-accepted/" + feature(), expected, o.String()
		}
		for _, n := range b.loadErr {
			if strings.Contains(o.Msg, n) || strings.Contains(o.Path, n) {
				return true, "", expected, o.String()
			}
		}
		return false, "error-does-not-name-fault/" + feature(), expected, o.String()
	}
	if lo.Kind != KOut {
		return false, "load-failed/" + feature(), "templates load for " + desc, lo.String()
	}
	out, st := renderModel(b.env, b.page, b.data)
	exp := expectOf(out, st)
	o := render(tpl, b.page, dataMap(b.data))
	expected = exp.String() + " for " + desc + fmt.Sprintf(" data=%v", b.data)
	good, why := conforms(exp, o)
	if !good {
		if o.Kind == KPanic || o.Kind == KHang {
			return false, o.Kind + "@" + o.Site, expected, o.String()
		}
		return false, why + "/" + feature(), expected, o.String()
	}
	// the other pages of the tree that use the same layout render with their own inserts
	for _, other := range []string{"zpage2", "apage0"} {
		out2, st2 := renderModel(b.env, other, b.data)
		exp2 := expectOf(out2, st2)
		o2 := render(tpl, other, dataMap(b.data))
		if good, why := conforms(exp2, o2); !good {
			if o2.Kind == KPanic || o2.Kind == KHang {
				return false, o2.Kind + "@" + o2.Site, exp2.String(), o2.String()
			}
			return false, why + "/second-page-of-layout/" + feature(), exp2.String() + " for page " + other + " of " + desc, o2.String()
		}
	}
	// the plain page of the same tree still renders to itself
	if po := render(tpl, "plain", nil); po.Kind != KOut || po.Out != "plain page" {
		return false, "other-page-affected", "plain page renders to itself", po.String()
	}
	return true, "", expected, o.String()
}

func c06Run(c *Ctx) {
	enterScratch()
	order := int64(0)
	do := func(cs c06Case) bool {
		if c.Expired() {
			return false
		}
		order++
		c.Trace(cs)
		ok, sig, exp, obs := c06Check(cs)
		c.Evals(1)
		c.Case(cs.InsA != 0 || cs.InsB != 0 || cs.Special != "")
		c.OutcomeClass(strings.SplitN(obs, "(", 2)[0])
		if order%307 == 1 {
			c.Sample(map[string]any{"case": cs, "expected": clip(exp, 400), "observed": clip(obs, 200)})
		}
		if !ok {
			c.Report(sig, int64(len(cs.Layout))*10000000+order%10000000, cs, exp, obs, "")
		}
		return true
	}
	maxItems := 3
	if c.Thorough() {
		maxItems = 4
	}
	for k := 1; k <= maxItems; k++ {
		nItems := len(c06LayoutItems)
		if k == 4 {
			nItems = 9 // the longest layouts use the first nine item kinds
		}
		if k == 3 && !c.Thorough() {
			nItems = 11 // quick tier: three-item layouts over the first eleven item kinds (all of them in the thorough tier)
		}
		if !seqEnum(c, nItems, k, func(idx []int) bool {
			seen := map[string]bool{}
			for _, ix := range idx {
				if r := c06ItemReserve(ix); r != "" {
					if seen[r] {
						return true // reserve names are distinct within a layout
					}
					seen[r] = true
				}
			}
			lay := append([]int{}, idx...)
			for ia := 0; ia < c06InsForms; ia++ {
				for ib := 0; ib < c06InsForms; ib++ {
					for _, bfirst := range []bool{false, true} {
						if bfirst && (ia == 0 || ib == 0) {
							continue
						}
						for data := 0; data < 3; data++ {
							if k == 3 && !c.Thorough() && data != (ia+ib+idx[0])%3 {
								continue // quick tier: three-item layouts take one of the three data maps in rotation
							}
							// use form, junk and configuration rotate (all combinations in the thorough tier)
							combos := [][4]int{{int(order) % 2, int(order/2) % 2, int(order/4) % 2, int(order/8) % 2}}
							if (c.Thorough() && k <= 3) || k <= 2 {
								combos = [][4]int{{0, 0, 0, 0}, {1, 1, 0, 0}, {0, 1, 1, 0}, {1, 0, 1, 0}, {0, 0, 0, 1}, {1, 1, 1, 1}}
							}
							for _, cb := range combos {
								if !do(c06Case{Layout: lay, UseForm: cb[0], InsA: ia, InsB: ib, BFirst: bfirst, Junk: cb[1] == 1, Data: data, Cfg: cb[2], Prior: cb[3] == 1}) {
									return false
								}
							}
						}
					}
				}
			}
			return true
		}) {
			return
		}
	}
	// fault cases
	if c.Mine() {
		for ia := 0; ia < c06InsForms; ia++ {
			for _, cfg := range []int{0, 1} {
				if !do(c06Case{Layout: []int{0, 1, 7}, UseForm: 2, InsA: ia, InsB: (ia + 1) % c06InsForms, Data: 0, Cfg: cfg}) {
					return
				}
				// a layout whose name ends in the extension
				if !do(c06Case{Layout: []int{0, 1, 7}, UseForm: 4, InsA: ia, InsB: (ia + 3) % c06InsForms, Data: 0, Cfg: cfg}) {
					return
				}
				// @use written behind the inserts of the page
				if !do(c06Case{Layout: []int{0, 1, 7}, UseForm: 3, InsA: ia, InsB: (ia + 2) % c06InsForms, Data: 0, Cfg: cfg, Junk: cfg == 1}) {
					return
				}
			}
		}
		for _, sp := range []string{"duplicate-insert", "missing-layout", "layout-uses-layout", "nested-duplicate-insert", "use-inside-insert"} {
			for ia := 1; ia < c06InsForms; ia++ {
				for _, uf := range []int{0, 1} {
					for _, cfg := range []int{0, 1} {
						if !do(c06Case{Layout: []int{0, 1, 2}, UseForm: uf, InsA: ia, InsB: (ia % 3) * 2, Data: 0, Cfg: cfg, Special: sp}) {
							return
						}
					}
				}
			}
		}
	}
}

func init() {
	p := &Property{
		ID:    "C06",
		Level: "exploration",
		Rule: "bounded-exhaustive template trees on disk: every layout that is a sequence of <=k items from {text, @reserve(a), @reserve(b), reserve inside @if(true) / @if(v)-else / @if(false) / the @else branch / an @each of two passes, {{ v }}} with distinct reserve names x every page (@use plain and ~ form) with each of the inserts a, b absent or in one of 6 forms (block: text, {{ v }}, @if(v); expression: literal, v, \"…\" + v), both orders, with/without junk text around them x data maps (v bound, unbound, falsy) x two directory/extension settings; plus duplicate inserts, a missing layout file and a layout that uses a layout.  [as built: prior-load dimension: a decoy directory with files of the same names is loaded and rendered earlier in the process]" +
			"Reference: RefTW substitution; inserts that name no reserve must fail loading with an error naming the insert. Non-trivial: the page has at least one insert or a fault",
		Bounds: func(tier string) map[string]any {
			if tier == "thorough" {
				return map[string]any{"layout_items": 4, "item_alphabet": len(c06LayoutItems), "item_alphabet_len4": 9, "insert_forms": c06InsForms - 1, "all_use_junk_cfg_combinations_up_to_len": 3}
			}
			return map[string]any{"layout_items": 3, "item_alphabet": len(c06LayoutItems), "item_alphabet_len3": 11, "insert_forms": c06InsForms - 1}
		},
		Assume: []string{"insert bodies use only text and data-map variables (whether an insert sees the layout's loop variable is not stated)"},
		Run:    c06Run,
	}
	registerTyped(p, c06Check)
}
