package main

import (
	"fmt"
	"sort"
	"strconv"
	"strings"
)

// RefTW values (DESIGN.md section 4). Deliberately boring.

const (
	VNil   = "nil"
	VInt   = "int"
	VFloat = "float"
	VStr   = "str"
	VBool  = "bool"
	VArr   = "arr"
	VObj   = "obj"
)

type Val struct {
	K string         `json:"k"`
	I int64          `json:"i,omitempty"`
	F float64        `json:"f,omitempty"`
	S string         `json:"s,omitempty"`
	B bool           `json:"b,omitempty"`
	A []Val          `json:"a,omitempty"`
	O map[string]Val `json:"o,omitempty"`
}

func vInt(i int64) Val     { return Val{K: VInt, I: i} }
func vFloat(f float64) Val { return Val{K: VFloat, F: f} }
func vStr(s string) Val    { return Val{K: VStr, S: s} }
func vBool(b bool) Val     { return Val{K: VBool, B: b} }
func vNil() Val            { return Val{K: VNil} }
func vArr(a ...Val) Val    { return Val{K: VArr, A: a} }
func vObj(kv ...any) Val {
	o := map[string]Val{}
	for i := 0; i+1 < len(kv); i += 2 {
		o[kv[i].(string)] = kv[i+1].(Val)
	}
	return Val{K: VObj, O: o}
}

func (v Val) Truthy() bool {
	switch v.K {
	case VNil:
		return false
	case VBool:
		return v.B
	case VInt:
		return v.I != 0
	case VFloat:
		return v.F != 0
	case VStr:
		return v.S != ""
	}
	return true // arrays and objects, empty or not
}

// Print is the rendering of a value by {{ }}. ok=false: the statement does not pin it down
// (objects: key order is C14's business; non-finite and huge floats).
func (v Val) Print() (string, bool) {
	switch v.K {
	case VNil:
		return "", true
	case VInt:
		return strconv.FormatInt(v.I, 10), true
	case VFloat:
		return printFloat(v.F)
	case VStr:
		return v.S, true
	case VBool:
		if v.B {
			return "1", true
		}
		return "0", true
	case VArr:
		parts := make([]string, len(v.A))
		for i, e := range v.A {
			s, ok := e.Print()
			if !ok {
				return "", false
			}
			parts[i] = s
		}
		return strings.Join(parts, ", "), true
	case VObj:
		if len(v.O) == 0 {
			return "{}", true
		}
		if len(v.O) == 1 {
			for k, e := range v.O {
				s, ok := e.Print()
				if !ok {
					return "", false
				}
				return "{" + k + ": " + s + "}", true
			}
		}
		return "", false
	}
	return "", false
}

// printFloat: shortest 'f' form with at least one decimal.
func printFloat(f float64) (string, bool) {
	if f != f || f > 1e15 || f < -1e15 {
		return "", false
	}
	s := strconv.FormatFloat(f, 'f', -1, 64)
	if !strings.Contains(s, ".") {
		s += ".0"
	}
	if s == "-0.0" {
		return "", false // sign of zero is not pinned down
	}
	return s, true
}

// ToGo converts to the plain Go value passed through the data map.
func (v Val) ToGo() any {
	switch v.K {
	case VNil:
		return nil
	case VInt:
		return v.I
	case VFloat:
		return v.F
	case VStr:
		return v.S
	case VBool:
		return v.B
	case VArr:
		out := make([]any, len(v.A))
		for i, e := range v.A {
			out[i] = e.ToGo()
		}
		return out
	case VObj:
		out := map[string]any{}
		for k, e := range v.O {
			out[k] = e.ToGo()
		}
		return out
	}
	return nil
}

// Lit is the Textwire source text of a literal with this value.
func (v Val) Lit() string {
	switch v.K {
	case VNil:
		return "nil"
	case VInt:
		if v.I < 0 {
			return "(" + strconv.FormatInt(v.I, 10) + ")"
		}
		return strconv.FormatInt(v.I, 10)
	case VFloat:
		s := strconv.FormatFloat(v.F, 'f', -1, 64)
		if !strings.Contains(s, ".") {
			s += ".0"
		}
		if v.F < 0 {
			return "(" + s + ")"
		}
		return s
	case VStr:
		return `"` + strings.ReplaceAll(v.S, `"`, `\"`) + `"`
	case VBool:
		if v.B {
			return "true"
		}
		return "false"
	case VArr:
		parts := make([]string, len(v.A))
		for i, e := range v.A {
			parts[i] = e.Lit()
		}
		return "[" + strings.Join(parts, ", ") + "]"
	case VObj:
		keys := make([]string, 0, len(v.O))
		for k := range v.O {
			keys = append(keys, k)
		}
		sort.Strings(keys)
		parts := make([]string, len(keys))
		for i, k := range keys {
			parts[i] = k + ": " + v.O[k].Lit()
		}
		return "{" + strings.Join(parts, ", ") + "}"
	}
	return "nil"
}

func (v Val) Equal(w Val) bool {
	if v.K != w.K {
		return false
	}
	switch v.K {
	case VInt:
		return v.I == w.I
	case VFloat:
		return v.F == w.F
	case VStr:
		return v.S == w.S
	case VBool:
		return v.B == w.B
	case VArr:
		if len(v.A) != len(w.A) {
			return false
		}
		for i := range v.A {
			if !v.A[i].Equal(w.A[i]) {
				return false
			}
		}
	case VObj:
		if len(v.O) != len(w.O) {
			return false
		}
		for k, e := range v.O {
			f, ok := w.O[k]
			if !ok || !e.Equal(f) {
				return false
			}
		}
	}
	return true
}

func (v Val) String() string {
	switch v.K {
	case VArr, VObj:
		return v.Lit()
	}
	return fmt.Sprintf("%s:%s", v.K, v.Lit())
}

func dataMap(vars map[string]Val) map[string]any {
	if vars == nil {
		return nil
	}
	out := map[string]any{}
	for k, v := range vars {
		out[k] = v.ToGo()
	}
	return out
}
