package main

import (
	"fmt"
	"reflect"
	"sort"
	"strings"

	textwire "github.com/textwire/textwire/v2"
	"github.com/textwire/textwire/v2/config"
	rt "github.com/textwire/textwire/v2/zzverifrt"
)

// C20 — custom functions: unique registration, faithful argument/result conversion.
// Explicit-state search over Register*/call/load histories + an argument/result conversion product.

type c20Case struct {
	Mode    string `json:"mode"` // history | convert | mutate
	Wide    bool   `json:"wide,omitempty"`
	History []int  `json:"history,omitempty"`
	Type    int    `json:"type,omitempty"`   // convert: receiver type
	Args    []int  `json:"args,omitempty"`   // convert: indices into c20ArgVals
	Result  int    `json:"result,omitempty"` // convert: which result value the function returns
	AsVar   bool   `json:"as_var,omitempty"`
}

var c20Types = []string{"str", "arr", "int", "float", "bool"}
var c20TypeNames = []string{"STRING", "ARRAY", "INTEGER", "FLOAT", "BOOLEAN"}
var c20RecvLit = []string{`"abc"`, "[1, 2]", "12345", "2.5", "true"}
var c20RecvGo = []any{"abc", []any{1, 2}, 12345, 2.5, true}

// builtin "len" exists for strings, arrays and integers only
var c20BuiltinLen = []string{"3", "2", "5", "", ""}

func c20Names(wide bool) []string {
	if wide {
		return []string{"f", "len", "g"}
	}
	return []string{"f", "len"}
}

type c20Op struct {
	kind    string // reg | call | load
	typ     int
	name    string
	variant int  // reg: 0 = A, 1 = B
	asVar   bool // call
}

func (o c20Op) String() string {
	switch o.kind {
	case "reg":
		return fmt.Sprintf("Register%s(%s,%c)", strings.Title(c20Types[o.typ]), o.name, 'A'+o.variant)
	case "call":
		f := "lit"
		if o.asVar {
			f = "var"
		}
		return fmt.Sprintf("Call(%s.%s,%s)", c20Types[o.typ], o.name, f)
	}
	return "Load"
}

func c20Ops(wide bool) []c20Op {
	var ops []c20Op
	for t := range c20Types {
		for _, n := range c20Names(wide) {
			for v := 0; v < 2; v++ {
				ops = append(ops, c20Op{kind: "reg", typ: t, name: n, variant: v})
			}
		}
	}
	for t := range c20Types {
		for _, n := range c20Names(wide) {
			for _, av := range []bool{false, true} {
				ops = append(ops, c20Op{kind: "call", typ: t, name: n, asVar: av})
			}
		}
	}
	ops = append(ops, c20Op{kind: "load"})
	return ops
}

// the ten registered functions are distinct function literals (distinct code pointers), so
// that the state hash tells variant A from variant B
func c20Register(t int, name string, variant int) error {
	switch t {
	case 0:
		if variant == 0 {
			return textwire.RegisterStrFunc(name, func(s string, a ...any) string { return "A(" + s + ")" })
		}
		return textwire.RegisterStrFunc(name, func(s string, a ...any) string { return "B(" + s + ")" })
	case 1:
		if variant == 0 {
			return textwire.RegisterArrFunc(name, func(s []any, a ...any) []any { return append(append([]any{}, s...), "A") })
		}
		return textwire.RegisterArrFunc(name, func(s []any, a ...any) []any { return append(append([]any{}, s...), "B") })
	case 2:
		if variant == 0 {
			return textwire.RegisterIntFunc(name, func(i int, a ...any) int { return i + 1000 })
		}
		return textwire.RegisterIntFunc(name, func(i int, a ...any) int { return i + 2000 })
	case 3:
		if variant == 0 {
			return textwire.RegisterFloatFunc(name, func(f float64, a ...any) float64 { return f + 0.25 })
		}
		return textwire.RegisterFloatFunc(name, func(f float64, a ...any) float64 { return f + 0.5 })
	default:
		if variant == 0 {
			return textwire.RegisterBoolFunc(name, func(b bool, a ...any) bool { return !b })
		}
		return textwire.RegisterBoolFunc(name, func(b bool, a ...any) bool { return b })
	}
}

var c20CustomOut = [][2]string{{"A(abc)", "B(abc)"}, {"1, 2, A", "1, 2, B"}, {"13345", "14345"}, {"2.75", "3.0"}, {"0", "1"}}

func c20Tree(wide bool) Tree {
	t := Tree{Dir: "t", Ext: ".tw", Files: map[string]string{"home.tw": "home"}}
	for ti := range c20Types {
		for _, n := range c20Names(wide) {
			t.Files[fmt.Sprintf("lit_%d_%s.tw", ti, n)] = "{{ " + c20RecvLit[ti] + "." + n + "() }}"
			t.Files[fmt.Sprintf("var_%d_%s.tw", ti, n)] = "{{ x." + n + "() }}"
		}
	}
	return t
}

type c20Model struct {
	reg    [5]map[string]int
	loaded bool
}

func newC20Model() *c20Model {
	m := &c20Model{}
	for i := range m.reg {
		m.reg[i] = map[string]int{}
	}
	return m
}

// c20Replay runs a history on the implementation and on the reference registry in lock step;
// it returns the first disagreement (if any) and the implementation's state key at the end.
func c20Replay(hist []int, wide bool) (ok bool, sig, expected, observed string, key uint64) {
	ops := c20Ops(wide)
	rt.ResetAll()
	m := newC20Model()
	var tpl *textwire.Template
	tree := c20Tree(wide)
	names := make([]string, len(hist))
	for i, h := range hist {
		names[i] = ops[h].String()
	}
	histS := strings.Join(names, " ; ")
	for step, h := range hist {
		op := ops[h]
		last := step == len(hist)-1
		switch op.kind {
		case "reg":
			var err error
			o := guard(func() Outcome {
				err = c20Register(op.typ, op.name, op.variant)
				return Outcome{Kind: KOut}
			})
			if o.Kind != KOut {
				return false, o.Kind + "@" + o.Site, "no crash", o.String() + " in " + histS, 0
			}
			_, dup := m.reg[op.typ][op.name]
			if dup {
				if err == nil {
					return false, "duplicate-registration-accepted/" + c20Types[op.typ], "the second registration of " + op.name + " for " + c20Types[op.typ] + " fails (history: " + histS + ")", "nil error", 0
				}
				if !strings.Contains(err.Error(), op.name) {
					return false, "duplicate-error-lacks-name", "the error names the function", err.Error(), 0
				}
			} else {
				if err != nil {
					return false, "first-registration-refused/" + c20Types[op.typ] + "/" + op.name, "the first registration of " + op.name + " for " + c20Types[op.typ] + " succeeds (history: " + histS + ")", err.Error(), 0
				}
				m.reg[op.typ][op.name] = op.variant
			}
		case "load":
			tree.write()
			tp, lo := func() (*textwire.Template, Outcome) {
				var tp *textwire.Template
				o := guard(func() Outcome {
					t2, err := textwire.NewTemplate(tree.config())
					if err != nil {
						return parseErr(err)
					}
					tp = t2
					return Outcome{Kind: KOut}
				})
				return tp, o
			}()
			if lo.Kind != KOut {
				return false, "load-failed", "templates load (history: " + histS + ")", lo.String(), 0
			}
			tpl = tp
			m.loaded = true
		case "call":
			var o Outcome
			data := map[string]any{"x": c20RecvGo[op.typ]}
			if m.loaded {
				form := "lit"
				if op.asVar {
					form = "var"
				}
				o = render(tpl, fmt.Sprintf("%s_%d_%s", form, op.typ, op.name), data)
			} else {
				recv := c20RecvLit[op.typ]
				if op.asVar {
					recv = "x"
				}
				o = guard(func() Outcome {
					out, err := textwire.EvaluateString("{{ "+recv+"."+op.name+"() }}", data)
					if err != nil {
						return parseErr(err)
					}
					return Outcome{Kind: KOut, Out: out}
				})
			}
			if o.Kind == KPanic || o.Kind == KHang {
				return false, o.Kind + "@" + o.Site, "no crash", o.String() + " in " + histS, 0
			}
			var exp Expect
			v, registered := m.reg[op.typ][op.name]
			switch {
			case op.name == "len" && c20BuiltinLen[op.typ] != "":
				exp = Expect{Kind: EValue, Text: c20BuiltinLen[op.typ]} // a built-in of that name takes precedence
			case registered:
				exp = Expect{Kind: EValue, Text: c20CustomOut[op.typ][v]}
			default:
				exp = Expect{Kind: EError, Has: []string{op.name, c20TypeNames[op.typ]}}
			}
			if good, why := conforms(exp, o); !good {
				when := "before-load"
				if m.loaded {
					when = "after-load"
				}
				form := "literal"
				if op.asVar {
					form = "variable"
				}
				return false, why + "/" + c20Types[op.typ] + "." + op.name + "/" + when + "/" + form, exp.String() + " for " + op.String() + " (history: " + histS + ")", o.String(), 0
			}
		}
		// conformance of the model state with the implementation's registry after every step
		if got, want := c20ImplRegistry(), c20ModelRegistry(m); got != want {
			return false, "registry-differs-from-model", "registry " + want + " after " + histS, "registry " + got, 0
		}
		_ = last
	}
	k, _ := stateVector(nil)
	if m.loaded {
		k ^= 0x9e3779b97f4a7c15
	}
	return true, "", "model and implementation agree on every step", "ok", k
}

func c20ModelRegistry(m *c20Model) string {
	var parts []string
	for t := range c20Types {
		var ns []string
		for n := range m.reg[t] {
			ns = append(ns, n)
		}
		sort.Strings(ns)
		parts = append(parts, c20Types[t]+":"+strings.Join(ns, ","))
	}
	return strings.Join(parts, " ")
}

// c20ImplRegistry reads the names registered per type out of the package-level registry.
func c20ImplRegistry() string {
	for _, vi := range rt.Vars {
		if !strings.HasSuffix(vi.Name, ".customFunc") {
			continue
		}
		f, ok := reflect.ValueOf(vi.Ptr).Elem().Interface().(*config.Func)
		if !ok || f == nil {
			return "<registry not a *config.Func>"
		}
		keys := func(m reflect.Value) string {
			var ns []string
			for _, k := range m.MapKeys() {
				ns = append(ns, k.String())
			}
			sort.Strings(ns)
			return strings.Join(ns, ",")
		}
		return "str:" + keys(reflect.ValueOf(f.Str)) + " arr:" + keys(reflect.ValueOf(f.Arr)) + " int:" + keys(reflect.ValueOf(f.Int)) +
			" float:" + keys(reflect.ValueOf(f.Float)) + " bool:" + keys(reflect.ValueOf(f.Bool))
	}
	return "<no registry variable>"
}

// ---------------------------------------------------------------------------------------------
// argument / result conversion

type c20Arg struct {
	lit  string
	want any
}

var c20ArgVals = []c20Arg{
	{"1", int64(1)}, {"(-1)", int64(-1)}, {"2.5", 2.5}, {`"s"`, "s"}, {`""`, ""}, {"true", true}, {"nil", nil},
	{"[1, [2]]", []any{int64(1), []any{int64(2)}}}, {"{a: {b: 1}}", map[string]any{"a": map[string]any{"b": int64(1)}}}, {"[]", []any{}},
	{`["x", nil, false, 0.5]`, []any{"x", nil, false, 0.5}}, {"{}", map[string]any{}},
	// falsy and empty members keep their place
	{`{a: nil, b: 1, c: "", d: 0, e: false, f: [], g: {}}`, map[string]any{"a": nil, "b": int64(1), "c": "", "d": int64(0), "e": false, "f": []any{}, "g": map[string]any{}}},
	{`[{k: nil}, [nil], 0, ""]`, []any{map[string]any{"k": nil}, []any{nil}, int64(0), ""}},
	// a string literal with HTML-special characters: the function is to receive the text as written
	{`"<b>&"`, "<b>&"},
	// text that spells an entity, supplied as data (amp is a data variable): it is text, not markup to be decoded
	{"amp", "a&amp;b &lt;"}, {"[amp, 1]", []any{"a&amp;b &lt;", int64(1)}}, {"{k: amp}", map[string]any{"k": "a&amp;b &lt;"}},
}

var c20ArrResults = []any{
	[]any{1, "s", nil, []any{2.5}, map[string]any{"k": true}},
	[]any{},
	[]any(nil),
	[]any{[]any{[]any{int8(3)}}, uint16(7), float32(0.5)},
	[]any{"<b>&"},
	[]any{make(chan int)}, // unsupported: as data this is an error, so the call must be an error too
	c20SharedResult(),     // the same map and the same slice mentioned twice: finite, so it converts
}

func c20SharedResult() []any {
	m := map[string]any{"k": true}
	s := []any{1, 2}
	return []any{m, m, s, s, map[string]any{"a": m, "b": m}}
}


// looseEqual is reflect.DeepEqual except that a nil slice/map equals an empty one.
func looseEqual(a, b any) bool {
	va, vb := reflect.ValueOf(a), reflect.ValueOf(b)
	if !va.IsValid() || !vb.IsValid() {
		return va.IsValid() == vb.IsValid()
	}
	if va.Kind() == reflect.Slice && vb.Kind() == reflect.Slice {
		if va.Len() != vb.Len() {
			return false
		}
		for i := 0; i < va.Len(); i++ {
			if !looseEqual(va.Index(i).Interface(), vb.Index(i).Interface()) {
				return false
			}
		}
		return true
	}
	if va.Kind() == reflect.Map && vb.Kind() == reflect.Map {
		if va.Len() != vb.Len() {
			return false
		}
		for _, k := range va.MapKeys() {
			x := vb.MapIndex(k)
			if !x.IsValid() || !looseEqual(va.MapIndex(k).Interface(), x.Interface()) {
				return false
			}
		}
		return true
	}
	return reflect.DeepEqual(a, b)
}

func c20Convert(cs c20Case) (ok bool, sig, expected, observed string) {
	var gotRecv any
	var gotArgs []any
	called := false
	var args []string
	var wantArgs []any
	for _, ix := range cs.Args {
		args = append(args, c20ArgVals[ix].lit)
		wantArgs = append(wantArgs, c20ArgVals[ix].want)
	}
	recv := c20RecvLit[cs.Type]
	if cs.AsVar {
		recv = "x"
	}
	var wantRecv any = c20RecvGo[cs.Type]
	if cs.Type == 1 {
		wantRecv = []any{int64(1), int64(2)}
	}
	var result any
	o := guard(func() Outcome {
		rt.ResetAll()
		called, gotRecv, gotArgs = false, nil, nil
		var err error
		switch cs.Type {
		case 0:
			result = []string{"r<&>", "", "é"}[cs.Result%3]
			err = textwire.RegisterStrFunc("probe", func(s string, a ...any) string { called, gotRecv, gotArgs = true, s, a; return result.(string) })
		case 1:
			result = c20ArrResults[cs.Result%len(c20ArrResults)]
			err = textwire.RegisterArrFunc("probe", func(s []any, a ...any) []any { called, gotRecv, gotArgs = true, s, a; return result.([]any) })
		case 2:
			result = []int{7, -1, 0}[cs.Result%3]
			err = textwire.RegisterIntFunc("probe", func(s int, a ...any) int { called, gotRecv, gotArgs = true, s, a; return result.(int) })
		case 3:
			result = []float64{0.5, -2.25, 3}[cs.Result%3]
			err = textwire.RegisterFloatFunc("probe", func(s float64, a ...any) float64 { called, gotRecv, gotArgs = true, s, a; return result.(float64) })
		default:
			result = cs.Result%2 == 0
			err = textwire.RegisterBoolFunc("probe", func(s bool, a ...any) bool { called, gotRecv, gotArgs = true, s, a; return result.(bool) })
		}
		if err != nil {
			return Outcome{Kind: KErr, Msg: "registration failed: " + err.Error()}
		}
		out, e := textwire.EvaluateString("[{{ "+recv+".probe("+strings.Join(args, ", ")+") }}]", map[string]any{"x": c20RecvGo[cs.Type], "amp": "a&amp;b &lt;"})
		if e != nil {
			return parseErr(e)
		}
		return Outcome{Kind: KOut, Out: out}
	})
	src := "[{{ " + recv + ".probe(" + strings.Join(args, ", ") + ") }}]"
	if o.Kind == KPanic || o.Kind == KHang {
		return false, o.Kind + "@" + o.Site, "no crash for " + src + fmt.Sprintf(" returning %#v", result), o.String()
	}
	// what the same Go value gives when passed as data
	asData := runString("[{{ v }}]", map[string]any{"v": result})
	expected = fmt.Sprintf("receiver %#v, arguments %#v, result rendered like data (%s) for %s", wantRecv, wantArgs, asData.String(), src)
	if !called {
		return false, "custom-function-not-called/" + c20Types[cs.Type], expected, o.String()
	}
	if cs.Type == 2 {
		if gi, ok := gotRecv.(int); !ok || gi != 12345 {
			return false, "wrong-receiver/" + c20Types[cs.Type], expected, fmt.Sprintf("receiver %#v", gotRecv)
		}
	} else if !looseEqual(gotRecv, wantRecv) {
		return false, "wrong-receiver/" + c20Types[cs.Type], expected, fmt.Sprintf("receiver %#v", gotRecv)
	}
	if len(gotArgs) != len(wantArgs) {
		return false, "wrong-argument-count", expected, fmt.Sprintf("arguments %#v", gotArgs)
	}
	for i := range wantArgs {
		if !looseEqual(gotArgs[i], wantArgs[i]) {
			return false, "wrong-argument/" + c20ArgVals[cs.Args[i]].lit, expected, fmt.Sprintf("argument %d is %#v", i, gotArgs[i])
		}
	}
	if asData.Kind == KErr && cs.Type == 1 && cs.Result%len(c20ArrResults) != 5 {
		// every array result but the one holding a channel is made of supported values only
		return false, "supported-result-rejected-as-data", expected, asData.String()
	}
	if asData.Kind == KErr {
		if o.Kind != KErr {
			return false, "unsupported-result-accepted", expected, o.String()
		}
		return true, "", expected, o.String()
	}
	if o.Kind != asData.Kind || o.Out != asData.Out {
		return false, "result-differs-from-data/" + c20Types[cs.Type], expected, o.String()
	}
	return true, "", expected, o.String()
}

// c20Mutate: custom functions that change the values they received must not affect later calls.
func c20Mutate(cs c20Case) (ok bool, sig, expected, observed string) {
	var got [][]any
	var gotArgs []any
	o := guard(func() Outcome {
		rt.ResetAll()
		got, gotArgs = nil, nil
		textwire.RegisterArrFunc("mut", func(s []any, a ...any) []any {
			got = append(got, append([]any{}, s...))
			for i := range s {
				s[i] = "MUT"
			}
			if len(a) > 0 {
				gotArgs = append(gotArgs, fmt.Sprint(a[0]))
				if m, ok := a[0].(map[string]any); ok {
					m["k"] = "MUT"
				}
				if l, ok := a[0].([]any); ok && len(l) > 0 {
					l[0] = "MUT"
				}
			}
			return []any{len(s)}
		})
		srcs := []string{
			"{{ x = [1, 2] }}{{ x.mut() }}|{{ x.mut() }}|{{ x }}",
			"{{ x.mut() }}|{{ x.mut() }}|{{ x }}",
			"{{ y = [[1, 2], 3] }}{{ y[0].mut() }}|{{ y[0].mut() }}|{{ y }}",
			"{{ o = {k: 5} }}{{ a = [7] }}{{ [0].mut(o) }}{{ [0].mut(o) }}{{ [0].mut(a) }}{{ [0].mut(a) }}|{{ o.k }}|{{ a }}",
		}
		out, err := textwire.EvaluateString(srcs[cs.Type%len(srcs)], map[string]any{"x": []any{1, 2}})
		if err != nil {
			return parseErr(err)
		}
		return Outcome{Kind: KOut, Out: out}
	})
	wants := []string{"2|2|1, 2", "2|2|1, 2", "2|2|1, 2, 3", "1111|5|7"}
	want := wants[cs.Type%len(wants)]
	expected = fmt.Sprintf("Value(%q); every call receives the original content", want)
	if o.Kind == KPanic || o.Kind == KHang {
		return false, o.Kind + "@" + o.Site, expected, o.String()
	}
	if o.Kind != KOut || o.Out != want {
		return false, "mutating-custom-function-visible-in-template", expected, o.String()
	}
	if cs.Type%4 < 3 {
		for _, g := range got {
			if fmt.Sprint(g) != "[1 2]" {
				return false, "mutating-custom-function-affects-later-call", expected, fmt.Sprintf("receivers seen by the function: %v", got)
			}
		}
	} else if fmt.Sprint(gotArgs) != "[map[k:5] map[k:5] [7] [7]]" {
		return false, "mutating-custom-function-affects-later-call", expected, fmt.Sprintf("arguments seen by the function: %v", gotArgs)
	}
	return true, "", expected, o.String()
}

// c20TwoSites: one custom function called from two places of a template; the second call returns a value that cannot be
// shown (as data it is an error): the error is that of the second call — same message, line and path as when the failing
// call stands alone on that line.
func c20TwoSites(cs c20Case) (ok bool, sig, expected, observed string) {
	run := func(src string, failAt int) Outcome {
		return guard(func() Outcome {
			rt.ResetAll()
			calls := 0
			reg := func() error {
				switch cs.Type {
				case 0:
					return textwire.RegisterArrFunc("twice", func(s []any, a ...any) []any {
						calls++
						if calls == failAt {
							return []any{make(chan int)}
						}
						return []any{calls}
					})
				default:
					return textwire.RegisterStrFunc("twice", func(s string, a ...any) string { calls++; return "s" })
				}
			}
			if err := reg(); err != nil {
				return Outcome{Kind: KErr, Msg: "registration failed: " + err.Error()}
			}
			out, e := textwire.EvaluateString(src, map[string]any{"x": []any{1}})
			if e != nil {
				return parseErr(e)
			}
			return Outcome{Kind: KOut, Out: out}
		})
	}
	both := run("{{ x.twice() }}\n\n{{ [2].twice(1) }}", 2)
	alone := run("ok\n\n{{ [2].twice(1) }}", 1)
	expected = "the failing second call is reported like the same call standing alone: " + alone.String()
	if both.Kind == KPanic || both.Kind == KHang {
		return false, both.Kind + "@" + both.Site, expected, both.String()
	}
	if alone.Kind != KErr {
		return true, "", "skipped", "" // the tree shows such a result: nothing to compare
	}
	if both.Kind != KErr || both.Msg != alone.Msg || both.Line != alone.Line || both.Path != alone.Path {
		return false, "failing-call-reported-at-another-call-site", expected, both.String()
	}
	return true, "", expected, both.String()
}

func c20Check(cs c20Case) (bool, string, string, string) {
	enterScratch()
	if cs.Mode == "two-sites" {
		return c20TwoSites(cs)
	}
	if cs.Mode == "mutate" {
		return c20Mutate(cs)
	}
	if cs.Mode == "convert" {
		return c20Convert(cs)
	}
	ok, sig, e, o, _ := c20Replay(cs.History, cs.Wide)
	return ok, sig, e, o
}

func c20Run(c *Ctx) {
	enterScratch()
	if c.Thorough() {
		if !c20BFS(c, 4, true) || !c20BFS(c, 5, false) {
			return
		}
	} else if !c20BFS(c, 4, false) {
		return
	}
	c20Conversions(c)
}

func c20BFS(c *Ctx, depth int, wide bool) bool {
	ops := c20Ops(wide)
	// BFS, sharded by the first operation (each shard explores the subtree below its first operations;
	// states are deduplicated per shard)
	seen := map[uint64]bool{}
	_, _, _, _, k0 := c20Replay(nil, wide)
	seen[k0] = true
	var frontier [][]int
	for first := range ops {
		if c.Mine() {
			frontier = append(frontier, []int{first})
		}
	}
	// level 1 histories are evaluated like any other
	level := frontier
	frontier = nil
	for d := 1; d <= depth && len(level) > 0; d++ {
		var next [][]int
		for _, hist := range level {
			if c.Expired() {
				return false
			}
			cs := c20Case{Mode: "history", History: hist, Wide: wide}
			c.Trace(cs)
			ok, sig, exp, obs, key := c20Replay(hist, wide)
			c.Evals(1)
			c.Count("transitions", 1)
			c.Case(len(hist) > 1)
			if len(hist) >= 2 {
				c.Sample(map[string]any{"history": c20HistNames(hist, wide), "result": clip(obs, 80)})
			}
			if !ok {
				c.Report(sig, int64(len(hist))*100000+int64(hist[len(hist)-1]), cs, exp, obs, "")
				continue
			}
			if !seen[key] {
				seen[key] = true
				if d < depth {
					for op := range ops {
						next = append(next, append(append([]int{}, hist...), op))
					}
				}
			} else if ops[hist[len(hist)-1]].kind != "reg" && d < depth {
				// calls and loads do not change the registry: their successors are covered from the state they return to
				c.Count("pruned_by_state_dedup", 1)
			}
		}
		level = next
	}
	c.Count("states", int64(len(seen)))
	return true
}

func c20Conversions(c *Ctx) {
	if c.Mine() {
		cs := c20Case{Mode: "two-sites", Type: 0}
		c.Trace(cs)
		ok, sig, exp, obs := c20TwoSites(cs)
		if exp != "skipped" {
			c.Evals(1)
			c.Case(true)
			if !ok {
				c.Report(sig, 9400000, cs, exp, obs, "")
			}
		}
	}
	if c.Mine() {
		for t := 0; t < 4; t++ {
			cs := c20Case{Mode: "mutate", Type: t}
			c.Trace(cs)
			ok, sig, exp, obs := c20Mutate(cs)
			c.Evals(1)
			c.Case(true)
			if !ok {
				c.Report(sig, 9500000+int64(t), cs, exp, obs, "")
			}
		}
	}
	// conversion product
	for t := range c20Types {
		if !c.Mine() {
			continue
		}
		nres := 3
		if t == 1 {
			nres = len(c20ArrResults)
		}
		for res := 0; res < nres; res++ {
			for _, av := range []bool{false, true} {
				run := func(args []int) bool {
					if c.Expired() {
						return false
					}
					cs := c20Case{Mode: "convert", Type: t, Args: args, Result: res, AsVar: av}
					c.Trace(cs)
					ok, sig, exp, obs := c20Convert(cs)
					c.Evals(1)
					c.Count("conversions", 1)
					c.Case(len(args) > 0 || t == 1)
					if !ok {
						c.Report(sig, 9000000+int64(len(args)), cs, exp, obs, "")
					}
					return true
				}
				if !run(nil) {
					return
				}
				for a := range c20ArgVals {
					if !run([]int{a}) {
						return
					}
					for b := range c20ArgVals {
						if res == 0 || c.Thorough() {
							if !run([]int{a, b}) {
								return
							}
						}
					}
				}
			}
		}
	}
}

func c20HistNames(h []int, wide bool) []string {
	ops := c20Ops(wide)
	out := make([]string, len(h))
	for i, x := range h {
		out[i] = ops[x].String()
	}
	return out
}

func init() {
	p := &Property{
		ID:    "C20",
		Level: "model_checking",
		Rule:  "explicit-state breadth-first search over histories of {Register{Str,Arr,Int,Float,Bool}Func(name, variant A|B) for names f, len (thorough: g), Call(type, name, literal | variable receiver), Load templates (later calls go through Template.String)} from a fresh package state, deduplicated by the deep hash of the package-level registry (+ loaded flag), run in lock step with a reference registry map[type]map[name]variant: first registration wins, later ones fail and change nothing, types are independent, a built-in of the same name takes precedence, an unregistered name is an error naming the function and the receiver type; after every step the names in the implementation's registry are read out and compared with the model's (conformance binding). Plus the conversion product: every argument tuple of length <=2 from 15 values (nested arrays/objects) and every result value, recorded inside the custom function and compared with the expected Go natives; the printed result must equal printing the same Go value passed as data; one function called from two places whose second call returns a value that cannot be shown: the error is that of the second call",
		Bounds: func(tier string) map[string]any {
			if tier == "thorough" {
				return map[string]any{"operations_3_names": len(c20Ops(true)), "history_depth_3_names": 4, "operations_2_names": len(c20Ops(false)), "history_depth_2_names": 5, "arg_values": len(c20ArgVals)}
			}
			return map[string]any{"operations": len(c20Ops(false)), "history_depth": 4, "names": 2, "arg_values": len(c20ArgVals)}
		},
		Assume: []string{
			"state deduplication happens per shard (shards own disjoint first operations); equal registry hash + loaded flag implies equal futures because calls depend on nothing else",
			"a nil slice/map and an empty one are treated as the same received value",
		},
		Run: c20Run,
		PostMerge: func(tier string, cov map[string]any, rs []WorkerResult) {
			var states, trans int64
			for _, r := range rs {
				states += r.Counters["states"]
				trans += r.Counters["transitions"]
			}
			cov["states"] = states
			cov["transitions"] = trans
			cov["traces_validated_against_impl"] = trans
			cov["state_vars"] = []string{"github.com/textwire/textwire/v2.customFunc (deep hash: five maps name -> function code pointer)", "loaded flag"}
		},
	}
	registerTyped(p, c20Check)
}
