package main

import (
	"fmt"
	"strings"

	"github.com/textwire/textwire/v2/lexer"
	"github.com/textwire/textwire/v2/parser"
	"github.com/textwire/textwire/v2/token"
)

// C08 — lexing and parsing terminate on every input and end in a program or an error.

type c08Case struct {
	Mode       string            `json:"mode"`            // seq | prefix | mutation | tree | cycle
	Files      map[string]string `json:"files,omitempty"` // cycle: the whole tree
	Seam       string            `json:"seam"`            // lex | parse | eval | page | layout | component
	Src        string            `json:"src"`
	MustReject bool              `json:"must_reject,omitempty"`
	Why        string            `json:"why,omitempty"`
}

var c08Lexemes = []string{
	"a", " ", "{{", "}}", "1", "x", "@if(", ")", "@end", "@else", "@elseif(", "@each(", "@for(", "in", ";",
	"=", "+", "-", "*", "/", "%", "==", "<", "!", "++", "--", "?", ":", ",", ".", "(", "[", "]", "{", "}",
	`"s"`, `"`, "'", "true", "nil", "2.5", "{{--", "--}}", "@break", "@continue", "@breakIf(", "@continueIf(",
	"@dump(", "@use(", "@reserve(", "@insert(", "@component(", "@slot", "@slot(", "@if", "\\", "\n", "^", "\xff", "\xa0", "\v", "\x00",
}

// structural subset used for the longer sequences of the thorough tier
var c08Structural = []string{
	"a", " ", "{{", "}}", "1", "@if(", ")", "@end", "@else", "@each(", "x", "in", "{", "}", ":", ",", `"`, "(",
	"{{--", "--}}", "@slot", "@component(", `"c"`, "^",
}

// ---------------------------------------------------------------------------------------------
// corpus of valid templates built from annotated segments

type c08seg struct {
	s     string
	kw    int // cut positions j with kw < j < len(s) are strictly inside the construct; -1: plain text
	delta int // change of the open-block depth once this segment is complete
	name  string
}

func sT(s string) c08seg { return c08seg{s, -1, 0, "text"} }
func sP(e string) c08seg { return c08seg{"{{ " + e + " }}", 1, 0, "{{"} }
func sC(b string) c08seg { return c08seg{"{{--" + b + "--}}", 1, 0, "comment"} }
func sD(kw, args string, delta int) c08seg {
	return c08seg{kw + "(" + args + ")", len(kw), delta, kw + "("}
}
func sN(kw string, delta int) c08seg { return c08seg{kw, len(kw), delta, kw} }

func c08Corpus() [][]c08seg {
	end := sN("@end", -1)
	return [][]c08seg{
		{sT("a"), sP("1 + 2"), sT("b")},
		{sP(`"s" + 's'`), sT("\n"), sP("x = 1"), sP("x")},
		{sP(`{a: 1, b: [1, 2], c: {d: "x"}}.a`)},
		{sP(`{"k": 1, z}`), sT(" ")},
		{sP(`"str with }} and { inside"`)},
		{sP("true ? 1 : 2"), sP("[1, 2, 3][0]"), sP(`"a".len()`), sP(`"abc".at(1)`), sP("o.k")},
		{sP("-1"), sP("!true"), sP("i++"), sP("(1 + 2) * 3"), sP("1 < 2")},
		{sD("@if", "x", 1), sT("A"), end},
		{sD("@if", "x", 1), sT("A"), sN("@else", 0), sT("B"), end, sT("t")},
		{sD("@if", "true", 1), sT("A"), sD("@elseif", "false", 0), sT("B"), sN("@else", 0), sT("C"), end},
		{sD("@if", "a", 1), sD("@if", "b", 1), sT("X"), end, sT("Y"), end},
		{sD("@each", "v in [1, 2]", 1), sP("v"), sP("loop.index"), end},
		{sD("@each", "v in a", 1), sT("x"), sN("@else", 0), sT("none"), end},
		{sD("@each", "v in [1, 2, 3]", 1), sD("@if", "v == 2", 1), sN("@break", 0), end, sP("v"), end},
		{sD("@each", "v in [1, 2, 3]", 1), sD("@continueIf", "v == 2", 0), sD("@breakIf", "v == 3", 0), sP("v"), sN("@continue", 0), end},
		{sD("@for", "i = 0; i < 3; i++", 1), sP("i"), end},
		{sD("@for", "i = 0; i < 0; i++", 1), sT("x"), sN("@else", 0), sT("e"), end},
		{sD("@dump", "x, 1", 0), sT(" "), sD("@dump", `{a: 1}`, 0)},
		{sC(" a comment "), sT("x"), sC(" {{ 1 }} @if(x) ")},
		{sT(`\{{ x }} and \@if(x) and @ alone and } and }} there`)},
		{sD("@use", `"layout"`, 0), sD("@insert", `"title", "T"`, 0), sD("@insert", `"body"`, 1), sT("B"), sP("x"), end},
		{sT("<t>"), sD("@reserve", `"title"`, 0), sT("</t>"), sD("@reserve", `"body"`, 0)},
		{sD("@component", `"c"`, 0), sT(" after")},
		{sD("@component", `"c", {a: 1, b: "x"}`, 0)},
		{sD("@component", `"~c", {a: 1}`, 0), sN("@slot", 2), sT("D"), end, sD("@slot", `"n"`, 1), sT("N"), end, end},
		{sT("<s>"), sN("@slot", 0), sT("-"), sD("@slot", `"n"`, 0), sT("</s>")},
		{sD("@if", "x", 1), sD("@component", `"c"`, 0), end},
		{sD("@each", "v in [1]", 1), sD("@for", "j = 0; j < 2; j++", 1), sP("j"), end, end},
		// several statements in one pair of braces
		{sP("x = 1; y = 2"), sP("x + y")},
		{sT("a"), sP("x = 1; x"), sT("b")},
		// blocks nested at the very end of insert blocks and slot bodies (their @end is not the body's @end)
		{sD("@use", `"l"`, 0), sD("@insert", `"x"`, 1), sD("@if", "a", 1), sT("b"), end, end, sT("z")},
		{sD("@insert", `"x"`, 1), sT("t"), sD("@each", "v in a", 1), sP("v"), sN("@else", 0), sT("n"), end, end},
		{sD("@component", `"c"`, 0), sD("@slot", `"s"`, 2), sD("@if", "a", 1), sT("b"), end, end, end},
		{sD("@component", `"c"`, 0), sN("@slot", 2), sD("@for", "i = 0; i < 1; i++", 1), sP("i"), end, end, sD("@slot", `"n"`, 1), sD("@if", "a", 1), sT("x"), sN("@else", 0), sT("y"), end, end, end, sT(" tail")},
		{sD("@if", "a", 1), sD("@insert", `"x"`, 1), sD("@if", "b", 1), sT("c"), end, end, end},
		{sD("@each", "v in a", 1), sD("@component", `"c"`, 0), sN("@slot", 2), sD("@if", "v", 1), sP("v"), end, end, end, end},
		// comments directly behind the @end of empty and non-empty blocks, behind @else, behind a component and a slot
		{sD("@if", "true", 1), end, sC(" c "), sT("x")},
		{sD("@each", "v in a", 1), end, sC(" c "), sD("@for", "i = 0; i < 1; i++", 1), end, sC(" d ")},
		{sD("@if", "a", 1), sN("@else", 0), sC(" c "), end, sC(" e "), sD("@if", "b", 1), sT("t"), end, sC(" f ")},
		{sD("@component", `"c"`, 0), sC(" c "), sT("\n"), sD("@component", `"c"`, 0), sN("@slot", 2), end, sC(" d "), end, sC(" e ")},
		{sD("@insert", `"x"`, 1), end, sC(" c ")},
	}
}

func c08Join(segs []c08seg) string {
	var sb strings.Builder
	for _, s := range segs {
		sb.WriteString(s.s)
	}
	return sb.String()
}

// ---------------------------------------------------------------------------------------------

func c08Check(cs c08Case) (ok bool, sig, expected, observed string) {
	expected = "terminates; (program, no errors) xor (>=1 error with line >= 1)"
	if cs.MustReject {
		expected += "; must be rejected: " + cs.Why
	}
	var o Outcome
	switch cs.Seam {
	case "lex":
		o = guard(func() Outcome {
			l := lexer.New(cs.Src)
			limit := len(cs.Src) + 2
			for i := 0; ; i++ {
				t := l.NextToken()
				if t.Type == token.EOF || t.Type == token.ILLEGAL {
					return Outcome{Kind: KOut}
				}
				if i > limit {
					return Outcome{Kind: KHang, Site: "lexer: more tokens than bytes (no progress)"}
				}
			}
		})
		if o.Kind != KOut {
			return false, o.Kind + "@" + o.Site, expected, o.String()
		}
		return true, "", expected, o.String()
	case "parse":
		var nilProg bool
		var badLine bool
		o = guard(func() Outcome {
			p := parser.New(lexer.New(cs.Src), "")
			prog := p.ParseProgram()
			errs := p.Errors()
			if len(errs) == 0 {
				if prog == nil {
					nilProg = true
				}
				return Outcome{Kind: KOut}
			}
			if errs[0].Line() < 1 {
				badLine = true
			}
			return failOutcome(errs[0])
		})
		if o.Kind == KPanic || o.Kind == KHang {
			return false, o.Kind + "@" + o.Site, expected, o.String()
		}
		if nilProg {
			return false, "nil-program-without-error", expected, "ParseProgram() == nil and Errors() is empty"
		}
		if badLine {
			return false, "error-without-line", expected, o.String()
		}
	case "eval":
		o = runString(cs.Src, nil)
		if o.Kind == KPanic || o.Kind == KHang {
			return false, o.Kind + "@" + o.Site, expected, o.String()
		}
		if o.Kind == KErr && o.Line < 1 {
			return false, "error-without-line", expected, o.String()
		}
		if o.Kind == KErr && o.Out != "" {
			return false, "output-and-error", expected, o.String()
		}
	case "cycle":
		t := Tree{Dir: "t", Ext: ".tw", Files: cs.Files}
		t.write()
		tpl, lo := t.load()
		o = lo
		if o.Kind == KPanic || o.Kind == KHang {
			return false, o.Kind + "@" + o.Site, expected, o.String()
		}
		if o.Kind == KOut {
			for n := range cs.Files {
				ro := render(tpl, strings.TrimSuffix(n, ".tw"), nil)
				if ro.Kind == KPanic || ro.Kind == KHang {
					return false, "render-" + ro.Kind + "@" + ro.Site, expected, ro.String()
				}
			}
		}
		return true, "", expected, o.String()
	case "page", "layout", "component", "layouts-dir", "components-dir":
		t := c08Tree(cs.Seam, cs.Src)
		t.write()
		tpl, lo := t.load()
		o = lo
		if o.Kind == KPanic || o.Kind == KHang {
			return false, o.Kind + "@" + o.Site, expected, o.String()
		}
		if o.Kind == KErr && o.Out != "" {
			return false, "template-and-error", expected, o.String()
		}
		if o.Kind == KOut {
			// loading accepted the file: rendering must terminate too
			for _, n := range []string{"index", "other"} {
				ro := render(tpl, n, nil)
				if ro.Kind == KPanic || ro.Kind == KHang {
					return false, "render-" + ro.Kind + "@" + ro.Site, expected, ro.String()
				}
			}
		}
	default:
		panic("harness bug: seam " + cs.Seam)
	}
	if cs.MustReject && o.Kind != KErr {
		return false, "accepted/" + cs.Why, expected, "accepted without error: " + o.String()
	}
	return true, "", expected, o.String()
}

// c08Tree places src as the page, as the layout of a page or as the component of a page.
func c08Tree(seam, src string) Tree {
	t := Tree{Dir: "t", Ext: ".tw", Files: map[string]string{}}
	switch seam {
	case "page":
		t.Files["index.tw"] = src
		t.Files["other.tw"] = "other"
	case "layout":
		t.Files["lay.tw"] = src
		t.Files["index.tw"] = `@use("lay")@insert("a")A@end`
		t.Files["other.tw"] = "other"
	case "component":
		t.Files["comp.tw"] = src
		t.Files["index.tw"] = `<p>@component("comp", {a: 1})</p>`
		t.Files["other.tw"] = "other"
	case "layouts-dir": // a file in the directory the ~ alias of @use points to, used by no page
		t.Files["layouts/lonely.tw"] = src
		t.Files["index.tw"] = "index"
		t.Files["other.tw"] = "other"
	case "components-dir":
		t.Files["components/lonely.tw"] = src
		t.Files["index.tw"] = "index"
		t.Files["other.tw"] = "other"
	}
	return t
}

func init() {
	p := &Property{
		ID:    "C08",
		Level: "exploration",
		Rule: "bounded-exhaustive: every sequence of <=k lexemes of the full lexeme alphabet (joined with and without spaces) at the lexer, parser and EvaluateString seams; " +
			"every byte prefix and every single-token deletion/duplication/adjacent swap of a corpus of annotated valid templates; short sequences also as page/layout/component file content, and as an unused file under layouts/ and components/, through NewTemplate; an illegal character in every name position of the directives and of object literals; trees whose files refer to each other in a cycle (components, layouts, self-reference). " +
			"Cases are enumerated without repetition; a case is non-trivial when it is not a well-formed template (it contains an unterminated/unbalanced construct, an illegal character, or is a must-reject prefix)",
		Bounds: func(tier string) map[string]any {
			if tier == "thorough" {
				return map[string]any{"lexemes": len(c08Lexemes), "seq_len_full": 4, "seq_len_structural": 5, "structural_lexemes": len(c08Structural), "tree_seq_len": 2, "corpus": len(c08Corpus())}
			}
			return map[string]any{"lexemes": len(c08Lexemes), "seq_len_full": 3, "tree_seq_len": 1, "corpus": len(c08Corpus())}
		},
		Assume: []string{
			"termination is decided by a deterministic fuel counter spliced into every loop and function of the instrumented build (2e6 ticks, confirmed at 2e7), not by a stopwatch",
			"must-reject obligations come from the construction of the annotated corpus (which construct a prefix was cut in), not from a second parser",
		},
		Run: c08Run,
	}
	registerTyped(p, c08Check)
}

func c08Do(c *Ctx, cs c08Case, order int64) {
	c.Trace(cs)
	ok, sig, exp, obs := c08Check(cs)
	c.Evals(1)
	// non-trivial = not a well-formed template: the implementation rejected it, or it must be rejected
	c.Case(cs.MustReject || strings.HasPrefix(obs, "Err(") || !ok)
	if strings.HasPrefix(obs, "Err(") {
		c.OutcomeClass(cs.Seam + ":rejected")
	} else {
		c.OutcomeClass(cs.Seam + ":accepted")
	}
	if !ok {
		c.Report(sig, order, cs, exp, obs, "")
	}
}

func c08Run(c *Ctx) {
	seams := []string{"lex", "parse", "eval"}
	// (b) prefixes and mutations of the corpus — first, they are few
	corpus := c08Corpus()
	for ti, segs := range corpus {
		if !c.Mine() {
			continue
		}
		full := c08Join(segs)
		// sanity of the corpus itself: the complete template must parse (otherwise must-reject claims are moot)
		if o := guard(func() Outcome {
			p := parser.New(lexer.New(full), "")
			p.ParseProgram()
			if len(p.Errors()) > 0 {
				return failOutcome(p.Errors()[0])
			}
			return Outcome{Kind: KOut}
		}); o.Kind != KOut {
			c.Note(fmt.Sprintf("corpus template %d does not parse on this tree (%s): its prefixes carry no must-reject claim", ti, o.String()))
			cs := c08Case{Mode: "corpus", Seam: "parse", Src: full}
			c08Do(c, cs, int64(len(full)))
			continue
		}
		depth := 0
		var openNames []string
		pos := 0
		for _, sg := range segs {
			for j := 1; j <= len(sg.s); j++ {
				cut := pos + j
				if cut >= len(full) {
					break
				}
				must, why := false, ""
				if j < len(sg.s) {
					if sg.kw >= 0 && j > sg.kw {
						must, why = true, "inside:"+sg.name
					} else if depth > 0 {
						must, why = true, "open:"+openNames[len(openNames)-1]
					}
				} else {
					d := depth + sg.delta
					if d > 0 {
						nm := sg.name
						if sg.delta <= 0 {
							nm = openNames[len(openNames)-1+min0(sg.delta)]
						}
						must, why = true, "open:"+nm
					}
				}
				for _, seam := range seams {
					cs := c08Case{Mode: "prefix", Seam: seam, Src: full[:cut], MustReject: must && seam != "lex", Why: why}
					c.Sample(cs)
					c08Do(c, cs, int64(cut))
				}
				if c.Thorough() || cut%3 == 0 {
					for _, seam := range []string{"page", "layout", "component", "layouts-dir", "components-dir"} {
						cs := c08Case{Mode: "prefix", Seam: seam, Src: full[:cut], MustReject: must, Why: why}
						c08Do(c, cs, int64(cut))
					}
				}
			}
			pos += len(sg.s)
			if sg.delta > 0 {
				for k := 0; k < sg.delta; k++ {
					openNames = append(openNames, sg.name)
				}
			} else if sg.delta < 0 {
				openNames = openNames[:len(openNames)+sg.delta]
			}
			depth += sg.delta
		}
		// token-level mutations
		var toks []string
		for _, sg := range segs {
			parts := strings.SplitAfter(sg.s, " ")
			toks = append(toks, parts...)
		}
		mut := func(ts []string) {
			src := strings.Join(ts, "")
			for _, seam := range []string{"lex", "parse", "eval", "page", "component"} {
				cs := c08Case{Mode: "mutation", Seam: seam, Src: src}
				c08Do(c, cs, int64(len(src))+1000)
			}
		}
		for i := range toks {
			del := append(append([]string{}, toks[:i]...), toks[i+1:]...)
			mut(del)
			dup := append(append(append([]string{}, toks[:i+1]...), toks[i]), toks[i+1:]...)
			mut(dup)
			if i+1 < len(toks) {
				sw := append([]string{}, toks...)
				sw[i], sw[i+1] = sw[i+1], sw[i]
				mut(sw)
			}
		}
	}

	// (b2) construct-level duplication: every contiguous run of segments of a corpus entry written twice (a second
	// @insert / @slot / @else of the same name, a repeated block), and every byte prefix that ends in or after the copy.
	// The results are mostly invalid templates: only totality is demanded of them.
	for ci, segs := range c08Corpus() {
		if !c.Mine() {
			continue
		}
		for i := range segs {
			for j := i; j < len(segs) && j < i+6; j++ {
				var dup []c08seg
				dup = append(dup, segs[:j+1]...)
				dup = append(dup, segs[i:j+1]...)
				dup = append(dup, segs[j+1:]...)
				full := c08Join(dup)
				from := len(c08Join(segs[:j+1]))
				for cut := from + 1; cut <= len(full); cut++ {
					if !c.Thorough() && cut != len(full) && (cut+ci)%2 == 0 {
						continue
					}
					for _, seam := range []string{"parse", "eval", "page"} {
						c08Do(c, c08Case{Mode: "duplicated-construct", Seam: seam, Src: full[:cut]}, int64(2000+cut))
					}
				}
			}
		}
	}

	// (b3) an illegal character, bare and inside braces, dropped at every segment boundary of every corpus entry
	// (behind a slot's @end, between the slots of a component, in front of an @else ...): still total
	for _, segs := range c08Corpus() {
		if !c.Mine() {
			continue
		}
		for i := 0; i <= len(segs); i++ {
			for _, junk := range []string{"{{ ^ }}", "^", "{{ # }}", "@if(^)x@end", "{{--"} {
				src := c08Join(segs[:i]) + junk + c08Join(segs[i:])
				for _, seam := range []string{"parse", "eval", "page", "component"} {
					c08Do(c, c08Case{Mode: "illegal-at-boundary", Seam: seam, Src: src}, int64(3000+len(src)))
				}
			}
		}
	}

	// (b4) an illegal character where a directive or an object literal expects a name: rejected like anywhere else
	if c.Mine() {
		for _, ch := range []string{"^", "#", "\xff"} {
			for _, form := range []string{"@reserve(%s)", "@insert(%s, 'x')", "@each(%s in [1, 2])x@end", "{{ {%s: 1} }}", "@component(%s)", "@use(%s)", "@component('c')@slot(%s)b@end@end", "@for(%s = 0; false; 1)x@end", "{{ %s = 1 }}", "{{ o.%s }}", "{{ 's'.%s() }}", "@dump(%s)"} {
				src := "a " + fmt.Sprintf(form, ch) + " b"
				for _, seam := range []string{"parse", "eval", "page"} {
					c08Do(c, c08Case{Mode: "illegal-in-name-position", Seam: seam, Src: src, MustReject: true, Why: "illegal-character-in-name-position"}, int64(4000+len(src)))
				}
			}
		}
	}

	// (d) files that refer to each other in a cycle: loading and rendering must still terminate
	if c.Mine() {
		refs := []func(string) string{
			func(n string) string { return `@component("` + n + `")` },
			func(n string) string { return `<p>@component("` + n + `", {a: 1})@slot x@end@end</p>` },
			func(n string) string { return `@use("` + n + `")@insert("i")I@end` },
			func(n string) string { return `@reserve("i")@use("` + n + `")` },
			func(n string) string { return `@if(true)@component("` + n + `")@end` },
		}
		for i, ra := range refs {
			for j, rb := range refs {
				cycles := []map[string]string{
					{"a.tw": ra("a")},
					{"a.tw": ra("b"), "b.tw": rb("a")},
					{"a.tw": ra("b"), "b.tw": rb("c"), "c.tw": ra("a")},
					{"components/a.tw": ra("~b"), "components/b.tw": rb("~a"), "index.tw": ra("~a")},
					{"a.tw": ra("b") + rb("b"), "b.tw": rb("a") + "@slot" + ra("b")},
				}
				for k, files := range cycles {
					if j > 0 && k == 0 {
						continue
					}
					cs := c08Case{Mode: "cycle", Seam: "cycle", Files: files}
					c.Sample(cs)
					c08Do(c, cs, int64(1000+i*100+j*10+k))
				}
			}
		}
	}

	// (a) lexeme sequences
	run := func(alpha []string, k int, joins []string, seams []string, mode string) bool {
		return seqEnum(c, len(alpha), k, func(idx []int) bool {
			if c.Expired() {
				return false
			}
			parts := make([]string, k)
			for i, ix := range idx {
				parts[i] = alpha[ix]
			}
			for _, j := range joins {
				src := strings.Join(parts, j)
				must, why := false, ""
				// by construction: plain text, then an opener, then (optionally) an illegal character
				benign := func(ps []string) bool {
					for _, q := range ps {
						if q != "a" && q != " " && q != "1" && q != "x" {
							return false
						}
					}
					return true
				}
				if k >= 2 && benign(parts[:k-2]) && (parts[k-2] == "{{" || parts[k-2] == "@if(") && (parts[k-1] == "^" || parts[k-1] == "\xff") {
					must, why = true, "illegal-character-in-code"
				}
				// ... also when the construct is closed behind the character (bytes above 0x7f are no letters of a name)
				illegal := func(q string) bool { return q == "^" || q == "\xff" || q == "\xa0" || q == "\x00" }
				if k >= 3 && benign(parts[:k-3]) && ((parts[k-3] == "{{" && parts[k-1] == "}}") || (parts[k-3] == "@if(" && parts[k-1] == ")")) && illegal(parts[k-2]) {
					must, why = true, "illegal-character-in-closed-code"
				}
				if k >= 1 && benign(parts[:k-1]) && (parts[k-1] == "{{" || parts[k-1] == "{{--") {
					must, why = true, "unterminated:"+parts[k-1]
				}
				for _, seam := range seams {
					cs := c08Case{Mode: mode, Seam: seam, Src: src, MustReject: must && seam != "lex", Why: why}
					c.Sample(cs)
					c08Do(c, cs, int64(len(src))+int64(k)*100000)
				}
			}
			return true
		})
	}
	both := []string{"", " "}
	maxK := 3
	if c.Thorough() {
		maxK = 4
	}
	for k := 1; k <= maxK; k++ {
		if !run(c08Lexemes, k, both, seams, "seq") {
			return
		}
	}
	treeK := 1
	if c.Thorough() {
		treeK = 2
	}
	for k := 1; k <= treeK; k++ {
		if !run(c08Lexemes, k, []string{""}, []string{"page", "layout", "component", "layouts-dir", "components-dir"}, "tree") {
			return
		}
	}
	if c.Thorough() {
		if !run(c08Structural, 5, []string{""}, seams, "seq-structural") {
			return
		}
	}
}

func min0(x int) int {
	if x < 0 {
		return x
	}
	return 0
}
