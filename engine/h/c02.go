package main

import (
	"fmt"
	"strings"
)

// C02 — @if/@elseif/@else renders exactly the first truthy branch.

type c02Case struct {
	Mode    string `json:"mode"`              // chain | ternary | breakif | continueif
	Classes []int  `json:"classes,omitempty"` // per condition: 0 falsy, 1 truthy, 2 failing
	HasElse bool   `json:"has_else,omitempty"`
	Rep     int    `json:"rep"`             // rotation of the class representatives
	VarMask int    `json:"varmask"`         // which conditions are data-supplied variables (bit i)
	Empty   int    `json:"empty,omitempty"` // 0 none; 1 first branch empty; 2 every second branch empty; 3 all branches empty; 4 first branch comment-only; 5 all branches comment-only
	Paren   bool   `json:"paren,omitempty"` // branch bodies and the text after the construct start with "("
	Place   []int  `json:"place"`           // nesting: 0 top, 1 in @each body, 2 in @if branch, 3 in @elseif branch, 4 in @else branch
	Twin    bool   `json:"twin,omitempty"`  // a second, always taken @if follows the construct in the same block
	Pre     int    `json:"pre,omitempty"`   // what precedes the construct in the template: 0 text only, 1 a printed expression with parentheses, 2 a printed call
}

type c02Rep struct {
	e *Expr // literal form
	v *Val  // value when supplied as data (nil: cannot be supplied, e.g. a failing expression)
}

func c02Reps() [3][]c02Rep {
	val := func(v Val) c02Rep { return c02Rep{eLit(v), &v} }
	neg1 := vInt(-1)
	emptyArr := Val{K: VArr}
	arr0 := vArr(vInt(0))
	emptyObj := Val{K: VObj, O: map[string]Val{}}
	objA := vObj("a", vInt(0))
	return [3][]c02Rep{
		{val(vBool(false)), val(vNil()), val(vInt(0)), val(vFloat(0)), val(vStr("")), {eCall(eLit(vStr("")), "len"), nil}},
		{val(vBool(true)), val(vInt(1)), {&Expr{Op: "neg", Kids: []*Expr{eLit(vInt(1))}}, &neg1}, val(vFloat(0.5)), val(vStr("a")), val(vStr("0")), val(vStr(" ")),
			{&Expr{Op: "arr"}, &emptyArr}, {&Expr{Op: "arr", Kids: []*Expr{eLit(vInt(0))}}, &arr0},
			{&Expr{Op: "obj"}, &emptyObj}, {&Expr{Op: "obj", Keys: []string{"a"}, Kids: []*Expr{eLit(vInt(0))}}, &objA},
			{eCall(eLit(vStr("ab")), "len"), nil}, // a condition that contains parentheses of its own
			val(vFloat(0.0000000001)), {eBin("-", eBin("+", eLit(vFloat(0.1)), eLit(vFloat(0.2))), eLit(vFloat(0.3))), nil}}, // tiny, but not zero
		{{eVar("zz"), nil}, {eBin("+", eLit(vInt(1)), eLit(vStr("a"))), nil}, {eBin("/", eLit(vInt(1)), eLit(vInt(0))), nil},
			{eBin("%", eLit(vInt(1)), eLit(vInt(0))), nil}, {eDot(eVar("zz"), "k"), nil}, {eCall(eVar("zz"), "len"), nil}},
	}
}

// c02Build constructs the template tree and the data map of a case.
func c02Build(cs c02Case) ([]*Node, map[string]Val) {
	reps := c02Reps()
	data := map[string]Val{}
	cond := func(i, class int) *Expr {
		r := reps[class][(cs.Rep+i)%len(reps[class])]
		if cs.VarMask&(1<<uint(i)) != 0 && r.v != nil {
			name := fmt.Sprintf("c%d", i)
			data[name] = *r.v
			return eVar(name)
		}
		return r.e
	}
	var construct []*Node
	mark := func(s string) string {
		if cs.Paren {
			return "(" + s + ")"
		}
		return s
	}
	body := func(i int, s string) []*Node {
		switch {
		case cs.Empty == 1 && i == 0, cs.Empty == 2 && i%2 == 1, cs.Empty == 3:
			return nil
		case cs.Empty == 4 && i == 0, cs.Empty == 5:
			return []*Node{{K: "comment", Text: " c "}}
		}
		return []*Node{nText(mark(s))}
	}
	switch cs.Mode {
	case "chain":
		n := &Node{K: "if", E: cond(0, cs.Classes[0]), Body: body(0, "B0")}
		for i := 1; i < len(cs.Classes); i++ {
			n.ElseIfs = append(n.ElseIfs, ElseIf{Cond: cond(i, cs.Classes[i]), Body: body(i, fmt.Sprintf("B%d", i))})
		}
		if cs.HasElse {
			n.HasElse = true
			n.Else = body(len(cs.Classes), "iBE") // the text behind @else begins like a longer directive name
		}
		construct = []*Node{nText("P"), n, nText(mark("Q"))}
	case "ternary":
		construct = []*Node{nText("P"), nPrint(&Expr{Op: "?:", Kids: []*Expr{cond(0, cs.Classes[0]), eLit(vStr("T")), eLit(vStr("F"))}}), nText("Q")}
	case "breakif", "continueif":
		construct = []*Node{nText("P"), {K: "each", Name: "w", E: &Expr{Op: "arr", Kids: []*Expr{eLit(vInt(1)), eLit(vInt(2))}},
			Body: []*Node{nText("A"), {K: cs.Mode, E: cond(0, cs.Classes[0])}, nText("Z")}}, nText("Q")}
	}
	if cs.Twin {
		construct = append(construct, nText("-"), &Node{K: "if", E: eLit(vBool(true)), Body: []*Node{nText("TWIN")}}, nText("+"),
			&Node{K: "each", Name: "tw", E: &Expr{Op: "arr", Kids: []*Expr{eLit(vInt(7))}}, Body: []*Node{nText("e"), nPrint(eVar("tw"))}})
	}
	for d := len(cs.Place) - 1; d >= 0; d-- {
		tag := fmt.Sprintf("%d", d)
		switch cs.Place[d] {
		case 1:
			construct = []*Node{nText("<" + tag), {K: "each", Name: "v" + tag, E: &Expr{Op: "arr", Kids: []*Expr{eLit(vInt(1)), eLit(vInt(2))}}, Body: append(append([]*Node{nText("[")}, construct...), nText("]"))}, nText(tag + ">")}
		case 2:
			construct = []*Node{nText("<" + tag), {K: "if", E: eLit(vBool(true)), Body: construct, HasElse: true, Else: []*Node{nText("NO")}}, nText(tag + ">")}
		case 3:
			construct = []*Node{nText("<" + tag), {K: "if", E: eLit(vBool(false)), Body: []*Node{nText("NO")}, ElseIfs: []ElseIf{{Cond: eLit(vInt(1)), Body: construct}}, HasElse: true, Else: []*Node{nText("NE")}}, nText(tag + ">")}
		case 4:
			construct = []*Node{nText("<" + tag), {K: "if", E: eLit(vStr("")), Body: []*Node{nText("NO")}, HasElse: true, Else: construct}, nText(tag + ">")}
		}
	}
	switch cs.Pre {
	case 1:
		construct = append([]*Node{nPrint(eBin("*", eBin("+", eLit(vInt(1)), eLit(vInt(2))), eLit(vInt(3)))), nText(";")}, construct...)
	case 2:
		construct = append([]*Node{nPrint(eCall(eLit(vStr("ab")), "len")), nText(";")}, construct...)
	}
	return construct, data
}

func c02Check(cs c02Case) (ok bool, sig, expected, observed string) {
	tree, data := c02Build(cs)
	src := printNodes(tree)
	out, st := evalTemplate(tree, data)
	exp := expectOf(out, st)
	o := runString(src, dataMap(data))
	good, why := conforms(exp, o)
	if good {
		return true, "", exp.String(), o.String()
	}
	if o.Kind == KPanic || o.Kind == KHang {
		return false, o.Kind + "@" + o.Site, exp.String() + " for " + src, o.String()
	}
	// which representative was involved: the chosen / first non-falsy condition
	reps := c02Reps()
	feature := ""
	for i, cl := range cs.Classes {
		if cl != 0 {
			r := reps[cl][(cs.Rep+i)%len(reps[cl])]
			feature = exprSrc(r.e)
			if cs.VarMask&(1<<uint(i)) != 0 && r.v != nil {
				feature = "data:" + feature
			}
			break
		}
	}
	if feature == "" && len(cs.Classes) > 0 {
		r := reps[0][(cs.Rep)%len(reps[0])]
		feature = "all-falsy:" + exprSrc(r.e)
	}
	return false, why + "/" + cs.Mode + "/" + feature, exp.String() + " for " + src + fmt.Sprintf(" data=%v", data), o.String()
}

func c02Run(c *Ctx) {
	order := int64(0)
	do := func(cs c02Case, nontriv bool) bool {
		if c.Expired() {
			return false
		}
		order++
		c.Trace(cs)
		c.Case(nontriv)
		if order%97 == 1 {
			tree, data := c02Build(cs)
			c.Sample(map[string]any{"src": printNodes(tree), "data": data})
		}
		ok, sig, exp, obs := c02Check(cs)
		c.Evals(1)
		if strings.HasPrefix(obs, "Err(") {
			c.OutcomeClass("err")
		} else {
			c.OutcomeClass("out")
		}
		if !ok {
			c.Report(sig, order, cs, exp, obs, "")
		}
		return true
	}
	maxElseIf, depth := 3, 3
	if c.Thorough() {
		maxElseIf, depth = 5, 4
	}
	// placements: all sequences of placements of length < depth (length 0 = top level)
	var places [][]int
	var recP func(cur []int)
	recP = func(cur []int) {
		places = append(places, append([]int{}, cur...))
		if len(cur) >= depth-1 {
			return
		}
		for p := 1; p <= 4; p++ {
			recP(append(cur, p))
		}
	}
	recP(nil)
	maxRep := 14
	for n := 1; n <= maxElseIf+1; n++ {
		sizes := make([]int, n)
		for i := range sizes {
			sizes[i] = 3
		}
		okAll := product(sizes, func(cl []int) bool {
			if !c.Mine() {
				return true
			}
			classes := append([]int{}, cl...)
			// non-trivial: the chosen branch is not the first, or a failing condition follows the chosen one
			chosen := -1
			for i, k := range classes {
				if k == 1 {
					chosen = i
					break
				}
				if k == 2 {
					chosen = -2
					break
				}
			}
			nontriv := chosen > 0 || chosen == -1
			if chosen >= 0 {
				for _, k := range classes[chosen+1:] {
					if k == 2 {
						nontriv = true
					}
				}
			}
			for _, hasElse := range []bool{false, true} {
				for rep := 0; rep < maxRep; rep++ {
					for _, vm := range []int{0, 1<<uint(n) - 1, 0x15 & (1<<uint(n) - 1), 0x0A & (1<<uint(n) - 1)} {
						for _, pl := range places {
							if !do(c02Case{Mode: "chain", Classes: classes, HasElse: hasElse, Rep: rep, VarMask: vm, Place: pl}, nontriv) {
								return false
							}
							if vm == 0 && rep < 3 {
								if !do(c02Case{Mode: "chain", Classes: classes, HasElse: hasElse, Rep: rep, VarMask: vm, Place: pl, Twin: true}, true) {
									return false
								}
							}
							if vm == 0 {
								for pre := 1; pre <= 2; pre++ {
									if !do(c02Case{Mode: "chain", Classes: classes, HasElse: hasElse, Rep: rep, VarMask: vm, Place: pl, Pre: pre}, true) {
										return false
									}
								}
							}
							if rep < 2 && vm == 0 {
								if !do(c02Case{Mode: "chain", Classes: classes, HasElse: hasElse, Rep: rep, VarMask: vm, Place: pl, Paren: true}, true) {
									return false
								}
								for em := 1; em <= 5; em++ {
									if !do(c02Case{Mode: "chain", Classes: classes, HasElse: hasElse, Rep: rep, VarMask: vm, Place: pl, Empty: em}, true) {
										return false
									}
								}
							}
						}
					}
				}
			}
			return true
		})
		if !okAll {
			return
		}
	}
	// the same truthiness table through the ternary, @breakIf and @continueIf
	for _, mode := range []string{"ternary", "breakif", "continueif"} {
		for class := 0; class < 3; class++ {
			if !c.Mine() {
				continue
			}
			for rep := 0; rep < maxRep; rep++ {
				for _, vm := range []int{0, 1} {
					for _, pl := range places {
						if !do(c02Case{Mode: mode, Classes: []int{class}, Rep: rep, VarMask: vm, Place: pl}, class != 0) {
							return
						}
						if vm == 0 && !do(c02Case{Mode: mode, Classes: []int{class}, Rep: rep, VarMask: vm, Place: pl, Pre: 1 + rep%2}, true) {
							return
						}
					}
				}
			}
		}
	}
}

func init() {
	p := &Property{
		ID:    "C02",
		Level: "exploration",
		Rule: "bounded-exhaustive: every @if chain with 0..n @elseif, with/without @else, every vector of condition classes {falsy, truthy, failing} with class representatives rotated through all value kinds (false nil 0 0.0 \"\" | true 1 -1 0.5 \"a\" \"0\" \" \" [] [0] {} {a: 0} | unknown identifier, type error, division/modulo by zero, property of unknown), literal and data-supplied, at every placement (top level, inside @each body, @if branch, @elseif branch, @else branch) up to a nesting depth; the same table through the ternary, @breakIf and @continueIf. " +
			"Non-trivial: the chosen branch is not the first one, no branch is chosen, or a failing condition follows the chosen branch (it must stay unevaluated)",
		Bounds: func(tier string) map[string]any {
			if tier == "thorough" {
				return map[string]any{"max_elseif": 5, "nesting_depth": 4, "representative_rotations": 11}
			}
			return map[string]any{"max_elseif": 3, "nesting_depth": 3, "representative_rotations": 11}
		},
		Assume: []string{"branch bodies are unique marker texts; expressions inside conditions are covered by C01"},
		Run:    c02Run,
	}
	registerTyped(p, c02Check)
}
