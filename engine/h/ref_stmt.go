package main

import (
	"strings"
)

// RefTW statements: template trees, their printer and their evaluator (DESIGN.md section 4).

type ElseIf struct {
	Cond *Expr
	Body []*Node
}

type SlotUse struct {
	Name string // "" = default slot
	Body []*Node
}

type Node struct {
	K       string // text print assign if each for break continue breakif continueif dump reserve insert component slot comment
	Text    string
	E       *Expr // print/assign value, condition, @each array, insert expression
	Name    string
	Body    []*Node
	ElseIfs []ElseIf
	Else    []*Node
	HasElse bool
	Init    *Node // @for
	Cond    *Expr
	Post    *Node // assign node, or print node holding i++ / i--
	Keys    []string
	Vals    []*Expr
	Slots   []SlotUse
	HasArgs bool
	Gap     string // component: white space / comments written between ")" and the first @slot (no output)
}

func nText(s string) *Node             { return &Node{K: "text", Text: s} }
func nPrint(e *Expr) *Node             { return &Node{K: "print", E: e} }
func nAssign(n string, e *Expr) *Node  { return &Node{K: "assign", Name: n, E: e} }
func eLit(v Val) *Expr                 { return &Expr{Op: "lit", V: v} }
func eVar(n string) *Expr              { return &Expr{Op: "var", Name: n} }
func eBin(op string, l, r *Expr) *Expr { return &Expr{Op: op, Kids: []*Expr{l, r}} }
func eDot(l *Expr, n string) *Expr     { return &Expr{Op: "dot", Name: n, Kids: []*Expr{l}} }
func eCall(recv *Expr, fn string, args ...*Expr) *Expr {
	return &Expr{Op: "call", Name: fn, Kids: append([]*Expr{recv}, args...)}
}

// TplFile is one template file of a tree.
type TplFile struct {
	Use     string // layout name as written in @use("…"), "" = none
	UseLast bool   // @use is written behind the other statements of the file (it means the same)
	Nodes   []*Node
}

type tplEnv struct {
	files map[string]*TplFile // by template name (relative path without extension)
}

// ---------------------------------------------------------------------------------------------
// printer

func exprSrc(e *Expr) string {
	toks := toToks(e, false)
	if t2, ok := group(toks); !ok || !sameTree(t2, e) {
		toks = toToks(e, true)
	}
	return renderToks(toks, 1)
}

func printNodes(ns []*Node) string {
	var sb strings.Builder
	for _, n := range ns {
		printNode(&sb, n)
	}
	return sb.String()
}

func printNode(sb *strings.Builder, n *Node) {
	switch n.K {
	case "text":
		sb.WriteString(n.Text)
	case "comment":
		sb.WriteString("{{--" + n.Text + "--}}")
	case "print":
		sb.WriteString("{{ " + exprSrc(n.E) + " }}")
	case "assign":
		sb.WriteString("{{ " + n.Name + " = " + exprSrc(n.E) + " }}")
	case "if":
		sb.WriteString("@if(" + exprSrc(n.E) + ")")
		sb.WriteString(printNodes(n.Body))
		for _, ei := range n.ElseIfs {
			sb.WriteString("@elseif(" + exprSrc(ei.Cond) + ")")
			sb.WriteString(printNodes(ei.Body))
		}
		if n.HasElse {
			sb.WriteString("@else")
			sb.WriteString(printNodes(n.Else))
		}
		sb.WriteString("@end")
	case "each":
		sb.WriteString("@each(" + n.Name + " in " + exprSrc(n.E) + ")")
		sb.WriteString(printNodes(n.Body))
		if n.HasElse {
			sb.WriteString("@else")
			sb.WriteString(printNodes(n.Else))
		}
		sb.WriteString("@end")
	case "for":
		sb.WriteString("@for(")
		if n.Init != nil {
			sb.WriteString(n.Init.Name + " = " + exprSrc(n.Init.E))
		}
		sb.WriteString("; ")
		if n.Cond != nil {
			sb.WriteString(exprSrc(n.Cond))
		}
		sb.WriteString("; ")
		if n.Post != nil {
			if n.Post.K == "assign" {
				sb.WriteString(n.Post.Name + " = " + exprSrc(n.Post.E))
			} else {
				sb.WriteString(exprSrc(n.Post.E))
			}
		}
		sb.WriteString(")")
		sb.WriteString(printNodes(n.Body))
		if n.HasElse {
			sb.WriteString("@else")
			sb.WriteString(printNodes(n.Else))
		}
		sb.WriteString("@end")
	case "break":
		sb.WriteString("@break")
	case "continue":
		sb.WriteString("@continue")
	case "breakif":
		sb.WriteString("@breakIf(" + exprSrc(n.E) + ")")
	case "continueif":
		sb.WriteString("@continueIf(" + exprSrc(n.E) + ")")
	case "dump":
		sb.WriteString("@dump(" + exprSrc(n.E) + ")")
	case "reserve":
		sb.WriteString(`@reserve("` + n.Name + `")`)
	case "insert":
		if n.E != nil {
			sb.WriteString(`@insert("` + n.Name + `", ` + exprSrc(n.E) + `)`)
		} else {
			sb.WriteString(`@insert("` + n.Name + `")`)
			sb.WriteString(printNodes(n.Body))
			sb.WriteString("@end")
		}
	case "component":
		sb.WriteString(`@component("` + n.Name + `"`)
		if n.HasArgs {
			sb.WriteString(", {")
			for i, k := range n.Keys {
				if i > 0 {
					sb.WriteString(", ")
				}
				sb.WriteString(k + ": " + exprSrc(n.Vals[i]))
			}
			sb.WriteString("}")
		}
		sb.WriteString(")")
		if len(n.Slots) > 0 {
			sb.WriteString(n.Gap)
			for _, s := range n.Slots {
				if s.Name == "" {
					sb.WriteString("@slot")
				} else {
					sb.WriteString(`@slot("` + s.Name + `")`)
				}
				sb.WriteString(printNodes(s.Body))
				sb.WriteString("@end")
			}
			sb.WriteString("@end")
		}
	case "slot":
		if n.Name == "" {
			sb.WriteString("@slot")
		} else {
			sb.WriteString(`@slot("` + n.Name + `")`)
		}
	default:
		panic("harness bug: node kind " + n.K)
	}
}

func printFile(f *TplFile) string {
	var sb strings.Builder
	if f.Use != "" && !f.UseLast {
		sb.WriteString(`@use("` + f.Use + `")`)
	}
	sb.WriteString(printNodes(f.Nodes))
	if f.Use != "" && f.UseLast {
		sb.WriteString(`@use("` + f.Use + `")`)
	}
	return sb.String()
}

// ---------------------------------------------------------------------------------------------
// evaluator

const (
	ctlNone     = 0
	ctlBreak    = 1
	ctlContinue = 2
)

// tScope is a block scope of the statement layer.
type tScope struct {
	Scope
	stale map[string]bool // loop scopes: bindings created in an earlier pass (their visibility is not pinned down)
	outer *tScope
}

func newTScope(outer *tScope) *tScope {
	s := &tScope{outer: outer}
	s.vars = map[string]Val{}
	if outer != nil {
		s.Scope.outer = &outer.Scope
	}
	return s
}

// lookupStale reports whether the visible binding of n is a stale loop-pass binding.
func (s *tScope) lookupStale(n string) bool {
	for c := s; c != nil; c = c.outer {
		if _, ok := c.vars[n]; ok {
			return c.stale[n]
		}
	}
	return false
}

type evalCtx struct {
	env       *tplEnv
	inserts   map[string]*Node   // of the page being rendered through its layout
	slots     map[string][]*Node // of the component use being rendered
	slotSc    *tScope
	depth     int
	absentFor bool // a @for with an absent clause was evaluated
}

// exprUsesStale: does the expression read a stale binding?
func exprUsesStale(e *Expr, sc *tScope) bool {
	if e == nil {
		return false
	}
	if e.Op == "var" && sc.lookupStale(e.Name) {
		return true
	}
	for _, k := range e.Kids {
		if exprUsesStale(k, sc) {
			return true
		}
	}
	return false
}

func evalE(e *Expr, sc *tScope) (Val, int) {
	if exprUsesStale(e, sc) {
		return Val{}, sUnspec
	}
	v, st := evalExpr(e, &sc.Scope)
	if st == sFloatStep {
		return v, sUnspec
	}
	return v, st
}

// assignVar implements C04: write the innermost scope; error when a visible binding has another
// type or the name is loop.
func assignVar(sc *tScope, name string, v Val) int {
	if name == "loop" {
		return sErr
	}
	if old, ok := sc.get(name); ok {
		if sc.lookupStale(name) {
			if old.K != v.K {
				return sUnspec
			}
		} else if old.K != v.K {
			return sErr
		}
	}
	sc.vars[name] = v
	if sc.stale != nil {
		delete(sc.stale, name)
	}
	return sOK
}

func (x *evalCtx) nodes(ns []*Node, sc *tScope) (string, int, int) {
	var sb strings.Builder
	for _, n := range ns {
		s, st, ctl := x.node(n, sc)
		if st != sOK {
			return "", st, ctlNone
		}
		sb.WriteString(s)
		if ctl != ctlNone {
			return sb.String(), sOK, ctl
		}
	}
	return sb.String(), sOK, ctlNone
}

func (x *evalCtx) node(n *Node, sc *tScope) (string, int, int) {
	switch n.K {
	case "text":
		return n.Text, sOK, ctlNone
	case "comment":
		return "", sOK, ctlNone
	case "print":
		v, st := evalE(n.E, sc)
		if st != sOK {
			return "", st, ctlNone
		}
		s, ok := v.Print()
		if !ok {
			return "", sUnspec, ctlNone
		}
		return s, sOK, ctlNone
	case "assign":
		v, st := evalE(n.E, sc)
		if st != sOK {
			return "", st, ctlNone
		}
		return "", assignVar(sc, n.Name, v), ctlNone
	case "if":
		c, st := evalE(n.E, sc)
		if st != sOK {
			return "", st, ctlNone
		}
		if c.Truthy() {
			return x.nodes(n.Body, newTScope(sc))
		}
		for _, ei := range n.ElseIfs {
			c, st := evalE(ei.Cond, sc)
			if st != sOK {
				return "", st, ctlNone
			}
			if c.Truthy() {
				return x.nodes(ei.Body, newTScope(sc))
			}
		}
		if n.HasElse {
			return x.nodes(n.Else, newTScope(sc))
		}
		return "", sOK, ctlNone
	case "breakif", "continueif":
		c, st := evalE(n.E, sc)
		if st != sOK {
			return "", st, ctlNone
		}
		if c.Truthy() {
			if n.K == "breakif" {
				return "", sOK, ctlBreak
			}
			return "", sOK, ctlContinue
		}
		return "", sOK, ctlNone
	case "break":
		return "", sOK, ctlBreak
	case "continue":
		return "", sOK, ctlContinue
	case "each":
		arr, st := evalE(n.E, sc)
		if st != sOK {
			return "", st, ctlNone
		}
		if arr.K != VArr {
			return "", sErr, ctlNone // iterating a non-array is an error
		}
		ls := newTScope(sc)
		ls.stale = map[string]bool{}
		if len(arr.A) == 0 {
			if n.HasElse {
				return x.nodes(n.Else, ls) // break/continue in here act on the loop around this loop
			}
			return "", sOK, ctlNone
		}
		var sb strings.Builder
		for i, el := range arr.A {
			// the loop variable is a binding of the loop's own scope; a visible outer name of another type is an error
			if n.Name == "loop" {
				return "", sErr, ctlNone
			}
			if old, ok := ls.get(n.Name); ok && old.K != el.K {
				return "", sErr, ctlNone
			}
			for k := range ls.vars {
				if k != n.Name && k != "loop" {
					ls.stale[k] = true
				}
			}
			ls.vars[n.Name] = el
			ls.vars["loop"] = vObj("index", vInt(int64(i)), "iter", vInt(int64(i+1)), "first", vBool(i == 0), "last", vBool(i == len(arr.A)-1))
			s, st, ctl := x.nodes(n.Body, ls)
			if st != sOK {
				return "", st, ctlNone
			}
			sb.WriteString(s)
			if ctl == ctlBreak {
				break
			}
		}
		return sb.String(), sOK, ctlNone
	case "for":
		ls := newTScope(sc)
		ls.stale = map[string]bool{}
		if n.Init == nil || n.Cond == nil || n.Post == nil {
			// absent clauses: conventional reading (no init binding / always true / no step); the
			// statement also admits an error, so callers turn the result into {value, Error}
			x.absentFor = true
		}
		initName := ""
		if n.Init != nil {
			initName = n.Init.Name
			iv, st := evalE(n.Init.E, ls)
			if st != sOK {
				return "", st, ctlNone
			}
			if st := assignVar(ls, n.Init.Name, iv); st != sOK {
				return "", st, ctlNone
			}
		}
		var sb strings.Builder
		for pass := 0; ; pass++ {
			if pass > 40 {
				refHorizonHit = true
				return "", sUnspec, ctlNone // beyond the reference horizon
			}
			if n.Cond != nil {
				c, st := evalE(n.Cond, ls)
				if st != sOK {
					return "", st, ctlNone
				}
				if !c.Truthy() {
					if pass == 0 && n.HasElse {
						return x.nodes(n.Else, ls)
					}
					break
				}
			}
			for k := range ls.vars {
				if k != initName && n.Init != nil {
					ls.stale[k] = true
				}
			}
			s, st, ctl := x.nodes(n.Body, ls)
			if st != sOK {
				return "", st, ctlNone
			}
			sb.WriteString(s)
			if ctl == ctlBreak {
				break
			}
			// post is applied after each pass (also after @continue)
			if n.Post == nil {
				continue
			}
			if n.Init == nil {
				return "", sUnspec, ctlNone // a step without a loop variable: not pinned down
			}
			var pv Val
			if n.Post.K == "assign" {
				if n.Post.Name != n.Init.Name {
					return "", sUnspec, ctlNone
				}
				pv, st = evalE(n.Post.E, ls)
			} else {
				pe := n.Post.E
				if (pe.Op != "inc" && pe.Op != "dec") || pe.Kids[0].Op != "var" || pe.Kids[0].Name != n.Init.Name {
					return "", sUnspec, ctlNone
				}
				pv, st = evalE(pe, ls)
			}
			if st != sOK {
				return "", st, ctlNone
			}
			if st := assignVar(ls, n.Init.Name, pv); st != sOK {
				return "", st, ctlNone
			}
		}
		return sb.String(), sOK, ctlNone
	case "dump":
		return "", sUnspec, ctlNone
	case "reserve":
		ins := x.inserts[n.Name]
		if ins == nil {
			return "", sOK, ctlNone
		}
		if ins.E != nil {
			v, st := evalE(ins.E, sc)
			if st != sOK {
				return "", st, ctlNone
			}
			s, ok := v.Print()
			if !ok {
				return "", sUnspec, ctlNone
			}
			return s, sOK, ctlNone
		}
		// "each @reserve(n) is replaced by the page's @insert(n) content": the body is evaluated in
		// place, in the scope at the reserve (an assignment in it is visible to what follows in that block)
		s, st, ctl := x.nodes(ins.Body, sc)
		return s, st, ctl // a @break / @continue in the insert content acts on the layout's loop around the reserve
	case "insert":
		return "", sOK, ctlNone
	case "component":
		f := x.env.files[compName(n.Name)]
		if f == nil {
			return "", sErr, ctlNone
		}
		cs := newTScope(sc)
		for i, k := range n.Keys {
			v, st := evalE(n.Vals[i], sc)
			if st != sOK {
				return "", st, ctlNone
			}
			if k == "loop" {
				return "", sErr, ctlNone // the name loop can never be supplied
			}
			cs.vars[k] = v // bound for this use, whatever the caller has under that name
		}
		sub := &evalCtx{env: x.env, inserts: x.inserts, slots: map[string][]*Node{}, slotSc: sc, depth: x.depth + 1}
		for _, s := range n.Slots {
			sub.slots[s.Name] = s.Body
		}
		if x.depth > 4 {
			return "", sUnspec, ctlNone
		}
		s, st, _ := sub.nodes(f.Nodes, cs)
		x.absentFor = x.absentFor || sub.absentFor
		return s, st, ctlNone
	case "slot":
		body, ok := x.slots[n.Name]
		if !ok {
			return "", sOK, ctlNone
		}
		// slot bodies are written by the caller; the harness only lets them use text and data variables
		s, st, _ := x.nodes(body, newTScope(x.slotSc))
		return s, st, ctlNone
	}
	panic("harness bug: eval of node kind " + n.K)
}

// lastAbsentFor reports whether the last renderModel call evaluated a @for with an absent clause.
var lastAbsentFor bool

// renderModel evaluates template `name` of the tree with the given data.
func renderModel(env *tplEnv, name string, data map[string]Val) (string, int) {
	lastAbsentFor = false
	f := env.files[name]
	if f == nil {
		return "", sErr
	}
	root := newTScope(nil)
	for k, v := range data {
		if k == "loop" {
			return "", sErr // loop can never be supplied as data
		}
		root.vars[k] = v
	}
	x := &evalCtx{env: env}
	if f.Use != "" {
		lay := env.files[useName(f.Use)]
		if lay == nil {
			return "", sErr
		}
		x.inserts = map[string]*Node{}
		for _, n := range f.Nodes {
			if n.K == "insert" {
				x.inserts[n.Name] = n
			}
		}
		s, st, _ := x.nodes(lay.Nodes, root)
		lastAbsentFor = x.absentFor
		return s, st
	}
	s, st, _ := x.nodes(f.Nodes, root)
	lastAbsentFor = x.absentFor
	return s, st
}

func compName(n string) string {
	if strings.HasPrefix(n, "~") {
		return "components/" + n[1:]
	}
	return n
}

func useName(n string) string {
	if strings.HasPrefix(n, "~") {
		return "layouts/" + n[1:]
	}
	return n
}

// evalTemplate: single-file (string API) evaluation.
// refHorizonHit: the last evalTemplate gave up on a @for loop after 40 passes (the program may not terminate).
var refHorizonHit bool

func evalTemplate(ns []*Node, data map[string]Val) (string, int) {
	refHorizonHit = false
	env := &tplEnv{files: map[string]*TplFile{"": {Nodes: ns}}}
	return renderModel(env, "", data)
}

func expectOf(out string, st int) Expect {
	switch st {
	case sOK:
		if lastAbsentFor {
			// absent @for clauses "are reported as errors (or have a defined result)"
			return Expect{Kind: ESet, Alts: []Expect{{Kind: EValue, Text: out}, {Kind: EError}}}
		}
		return Expect{Kind: EValue, Text: out}
	case sErr:
		return Expect{Kind: EError}
	}
	return Expect{Kind: EUnspec}
}
