package main

import (
	"net/http"
	"os"
	"path/filepath"
	"sort"

	textwire "github.com/textwire/textwire/v2"
	"github.com/textwire/textwire/v2/config"
	rt "github.com/textwire/textwire/v2/zzverifrt"
)

// A Tree is a template directory written to a private scratch root before each case.
type Tree struct {
	Dir       string            `json:"dir"`                // TemplateDir as passed to the configuration (relative to the scratch root)
	RealDir   string            `json:"real_dir,omitempty"` // directory the files are written to when Dir is a non-canonical spelling
	Ext       string            `json:"ext"`                // TemplateExt
	Files     map[string]string `json:"files"`              // path relative to RealDir/Dir (with extension) -> content
	ErrorPage string            `json:"error_page,omitempty"`
	Debug     bool              `json:"debug,omitempty"`
	Extra     []string          `json:"extra_dirs,omitempty"` // additional directories to create (relative to the scratch root)
}

var scratchRoot string

// enterScratch makes the worker's private working directory (on /dev/shm when available) current.
func enterScratch() string {
	if scratchRoot != "" {
		return scratchRoot
	}
	d := os.Getenv("VERIF_SHARD_DIR")
	if d == "" {
		d, _ = os.MkdirTemp("/var/tmp", "verif-scratch-")
	}
	must(os.MkdirAll(d, 0o755))
	must(os.Chdir(d))
	// the working directory as the process sees it (symlinks resolved the way filepath.Abs will)
	wd, err := os.Getwd()
	must(err)
	scratchRoot = wd
	return wd
}

func must(err error) {
	if err != nil {
		panic("harness: " + err.Error())
	}
}

func (t Tree) realDir() string {
	if t.RealDir != "" {
		return t.RealDir
	}
	return t.Dir
}

// write materialises the tree under the scratch root (everything there is removed first).
func (t Tree) write() { t.writeOpt(true) }

// writeKeep adds the tree to what is already under the scratch root.
func (t Tree) writeKeep() { t.writeOpt(false) }

func (t Tree) writeOpt(wipe bool) {
	root := enterScratch()
	if wipe {
		ents, _ := os.ReadDir(root)
		for _, e := range ents {
			os.RemoveAll(filepath.Join(root, e.Name()))
		}
	}
	must(os.MkdirAll(filepath.Join(root, t.realDir()), 0o755))
	for _, d := range t.Extra {
		must(os.MkdirAll(filepath.Join(root, d), 0o755))
	}
	names := make([]string, 0, len(t.Files))
	for n := range t.Files {
		names = append(names, n)
	}
	sort.Strings(names)
	for _, n := range names {
		p := filepath.Join(root, t.realDir(), n)
		must(os.MkdirAll(filepath.Dir(p), 0o755))
		must(os.WriteFile(p, []byte(t.Files[n]), 0o644))
	}
}

// rewriteFile replaces (or, with remove, deletes) one file of an already written tree.
func (t Tree) rewriteFile(rel string, content string, remove bool) {
	p := t.abs(rel)
	os.RemoveAll(p)
	if !remove {
		must(os.MkdirAll(filepath.Dir(p), 0o755))
		must(os.WriteFile(p, []byte(content), 0o644))
	}
}

func (t Tree) abs(rel string) string {
	return filepath.Join(enterScratch(), t.realDir(), rel)
}

func (t Tree) config() *config.Config {
	return &config.Config{TemplateDir: t.Dir, TemplateExt: t.Ext, ErrorPagePath: t.ErrorPage, DebugMode: t.Debug}
}

// load = fresh package state + NewTemplate on the tree (which must have been written).
func (t Tree) load() (*textwire.Template, Outcome) { return t.loadOpt(true) }

// loadKeep = NewTemplate without resetting the package state first (a second load in one process).
func (t Tree) loadKeep() (*textwire.Template, Outcome) { return t.loadOpt(false) }

func (t Tree) loadOpt(reset bool) (*textwire.Template, Outcome) {
	var tpl *textwire.Template
	o := guard(func() Outcome {
		if reset {
			rt.ResetRoot()
		}
		tp, err := textwire.NewTemplate(t.config())
		if err != nil {
			o := parseErr(err)
			if tp != nil {
				o.Out = "non-nil template returned together with an error"
			}
			return o
		}
		if tp == nil {
			return Outcome{Kind: KPanic, Site: "NewTemplate", Msg: "nil template and nil error"}
		}
		tpl = tp
		return Outcome{Kind: KOut}
	})
	return tpl, o
}

// render = (*Template).String with outcome classification.
func render(tpl *textwire.Template, name string, data map[string]any) Outcome {
	return guard(func() Outcome {
		out, ferr := tpl.String(name, data)
		if ferr != nil {
			o := failOutcome(ferr)
			o.Out = out
			return o
		}
		return Outcome{Kind: KOut, Out: out}
	})
}

// recorder is a minimal http.ResponseWriter.
type recorder struct {
	hdr  http.Header
	body []byte
	code int
}

func (r *recorder) Header() http.Header {
	if r.hdr == nil {
		r.hdr = http.Header{}
	}
	return r.hdr
}
func (r *recorder) Write(b []byte) (int, error) { r.body = append(r.body, b...); return len(b), nil }
func (r *recorder) WriteHeader(c int)           { r.code = c }

// respond = (*Template).Response; Out is the body, Kind is err when a non-nil error is returned.
func respond(tpl *textwire.Template, name string, data map[string]any) (o Outcome, body string) {
	var rec *recorder
	o = guard(func() Outcome {
		rec = &recorder{}
		err := tpl.Response(rec, name, data)
		if err != nil {
			oo := parseErr(err)
			return oo
		}
		return Outcome{Kind: KOut}
	})
	if rec != nil {
		body = string(rec.body)
	}
	return o, body
}
