package main

import (
	"html"
	"strings"
)

// C10 — string literals are HTML-escaped on output; raw() is the exact opt-out.

type c10Case struct {
	Lex   []int `json:"lex"`
	Quote int   `json:"quote"` // 0 double, 1 single
	Ctx   int   `json:"ctx"`
}

var c10Lexemes = []string{"a", "<", ">", "&", `"`, "'", ";", "#", "&amp;", "&lt;", "&#34;", "&#39;", "&quot;", "é", "\n", `\`, " ", ",", "\x00"}

var c10Contexts = []string{"print", "concat", "var", "array", "ternary", "raw", "raw-concat", "raw-var", "concat-var", "insert-arg", "component-arg", "component-arg-raw", "insert-block", "slot-body", "raw-then-print", "raw-twice", "print-raw-print", "array-last", "array-only", "array-nested-last", "loop-print", "loop-concat", "loop-raw", "loop-var-concat", "object-key", "object-key-lookup", "object-key-nested", "raw-then-concat", "raw-reassign", "raw-chain", "insert-arg-concat", "insert-arg-raw", "insert-arg-ternary"}

// c10Literal returns the literal's text and its source form; ok=false for contents that cannot
// be written (a backslash before a quote or at the end).
func c10Literal(cs c10Case) (text, src string, ok bool) {
	q := `"`
	if cs.Quote == 1 {
		q = "'"
	}
	var sb, tb strings.Builder
	for i, ix := range cs.Lex {
		l := c10Lexemes[ix]
		if l == `\` {
			if i == len(cs.Lex)-1 {
				return "", "", false
			}
			n := c10Lexemes[cs.Lex[i+1]]
			if n == `"` || n == "'" || n == `\` {
				return "", "", false
			}
		}
		tb.WriteString(l)
		if l == q {
			sb.WriteString(`\` + q)
		} else {
			sb.WriteString(l)
		}
	}
	return tb.String(), q + sb.String() + q, true
}

func c10Check(cs c10Case) (ok bool, sig, expected, observed string) {
	text, lit, valid := c10Literal(cs)
	if !valid {
		return true, "", "invalid", "invalid"
	}
	ctx := c10Contexts[cs.Ctx]
	var o Outcome
	var src string
	want := text // the text that must come back after unescaping (or exactly, for raw)
	raw := false
	pre, post := "", ""
	switch ctx {
	case "print":
		src = "{{ " + lit + " }}"
	case "concat":
		src = "{{ " + lit + ` + "<b>&" }}`
		want = text + "<b>&"
	case "var":
		src = "{{ v = " + lit + " }}{{ v }}"
	case "array":
		src = "{{ [" + lit + `, "x"] }}`
		want = text + ", x"
	case "ternary":
		src = "{{ true ? " + lit + ` : "n" }}`
	case "raw":
		src = "{{ " + lit + ".raw() }}"
		raw = true
	case "raw-concat":
		src = "{{ (" + lit + ` + "<b>&").raw() }}`
		want = text + "<b>&"
		raw = true
	case "raw-var":
		src = "{{ v = " + lit + " }}{{ v.raw() }}"
		raw = true
	case "raw-then-print": // raw() on a stored value, then the value itself: still escaped
		src = "{{ v = " + lit + " }}{{ w = v.raw() }}{{ v }}"
	case "raw-twice":
		src = "{{ v = " + lit + " }}{{ w = v.raw() }}{{ v.raw() }}"
		raw = true
	case "print-raw-print":
		src = "{{ a = [" + lit + "] }}{{ w = a[0].raw() }}{{ a[0] }}"
	case "array-last":
		src = `{{ ["x", ` + lit + `] }}`
		want = "x, " + text
	case "array-only":
		src = "{{ [" + lit + "] }}"
	case "array-nested-last":
		src = `{{ [[` + lit + `], "z"] }}`
		want = text + ", z"
	case "loop-print": // the same literal evaluated in every pass of a loop
		src = "@each(i in [1, 2]){{ " + lit + " }}|@end"
		want = text + "|" + text + "|"
	case "loop-concat":
		src = "@each(i in [1, 2]){{ " + lit + ` + "<b>&" }}|@end`
		want = text + "<b>&|" + text + "<b>&|"
	case "loop-raw":
		src = "@for(i = 0; i < 2; i++){{ " + lit + ".raw() }}|@end"
		want = text + "|" + text + "|"
		raw = true
	case "loop-var-concat":
		src = "@each(i in [1, 2]){{ v = " + lit + ` }}{{ v + "x" + v }}|@end`
		want = text + "x" + text + "|" + text + "x" + text + "|"
	case "object-key": // a string literal as the key of an object literal: its text reaches the output when the object is printed
		src = "{{ {" + lit + ": 1} }}"
		want = "{" + text + ": 1}"
	case "object-key-nested":
		src = "{{ [{" + lit + `: "<v>"}] }}`
		want = "{" + text + ": <v>}"
	case "object-key-lookup": // the same literal as key and as index names the same property
		src = "{{ {" + lit + `: "v"}[` + lit + "] }}"
		want = "v"
	case "raw-then-concat": // the result of raw() is a string like any other: it concatenates, compares, takes string functions
		src = "{{ " + lit + `.raw() + "|" }}{{ ` + lit + ".raw() == " + lit + ".raw() }}"
		want = text + "|1"
		raw = true
	case "raw-reassign":
		src = "{{ t = " + lit + " }}{{ t = t.raw() }}{{ t }}"
		raw = true
	case "raw-chain":
		src = "{{ " + lit + `.raw().trim("#") }}`
		want = strings.Trim(text, "#")
		raw = true
	case "concat-var":
		src = "{{ v = " + lit + ` }}{{ "<" + v + v }}`
		want = "<" + text + text
	}
	if src != "" {
		o = runString(src, nil)
	} else {
		t := Tree{Dir: "t", Ext: ".tw", Files: map[string]string{}}
		switch ctx {
		case "insert-arg":
			t.Files["lay.tw"] = `[@reserve("a")]`
			t.Files["index.tw"] = `@use("lay")@insert("a", ` + lit + `)`
			pre, post = "[", "]"
		case "insert-arg-concat": // the argument is an expression built from the literal
			t.Files["lay.tw"] = `[@reserve("a")]`
			t.Files["index.tw"] = `@use("lay")@insert("a", ` + lit + ` + "<b>&")`
			pre, post = "[", "]"
			want = text + "<b>&"
		case "insert-arg-ternary":
			t.Files["lay.tw"] = `[@reserve("a")]`
			t.Files["index.tw"] = `@use("lay")@insert("a", true ? ` + lit + ` : "n")`
			pre, post = "[", "]"
		case "insert-arg-raw":
			t.Files["lay.tw"] = `[@reserve("a")]`
			t.Files["index.tw"] = `@use("lay")@insert("a", ` + lit + `.raw())`
			pre, post = "[", "]"
			raw = true
		case "insert-block":
			t.Files["lay.tw"] = `[@reserve("a")]`
			t.Files["index.tw"] = `@use("lay")@insert("a"){{ ` + lit + ` }}@end`
			pre, post = "[", "]"
		case "component-arg":
			t.Files["c.tw"] = `<{{ a }}>`
			t.Files["index.tw"] = `@component("c", {a: ` + lit + `})`
			pre, post = "<", ">"
		case "component-arg-raw":
			t.Files["c.tw"] = `<{{ a.raw() }}>`
			t.Files["index.tw"] = `@component("c", {a: ` + lit + `})`
			pre, post = "<", ">"
			raw = true
		case "slot-body":
			t.Files["c.tw"] = `<@slot>`
			t.Files["index.tw"] = `@component("c")@slot{{ ` + lit + ` }}@end@end`
			pre, post = "<", ">"
		}
		src = t.Files["index.tw"]
		t.write()
		tpl, lo := t.load()
		if lo.Kind != KOut {
			o = lo
		} else {
			o = render(tpl, "index", nil)
		}
	}
	expected = "escaped rendering of literal " + strconvQuote(text)
	if raw {
		expected = "exactly the literal " + strconvQuote(text)
	}
	expected += " for " + strconvQuote(src)
	if o.Kind != KOut {
		s := "error-instead-of-value/" + ctx
		if o.Kind == KPanic || o.Kind == KHang {
			s = o.Kind + "@" + o.Site
		}
		return false, s, expected, o.String()
	}
	out := o.Out
	if !strings.HasPrefix(out, pre) || !strings.HasSuffix(out, post) || len(out) < len(pre)+len(post) {
		return false, "frame-lost/" + ctx, expected, o.String()
	}
	out = out[len(pre) : len(out)-len(post)]
	if raw {
		if out != want {
			return false, "raw-not-exact/" + ctx, expected, o.String()
		}
		return true, "", expected, o.String()
	}
	if strings.ContainsAny(out, "<>") {
		return false, "raw-angle-bracket/" + ctx, expected, o.String()
	}
	for i := 0; i < len(out); i++ {
		if out[i] == '&' {
			okEnt := false
			for _, e := range []string{"&amp;", "&lt;", "&gt;", "&#34;", "&#39;", "&quot;"} {
				if strings.HasPrefix(out[i:], e) {
					okEnt = true
				}
			}
			if !okEnt {
				return false, "bare-ampersand/" + ctx, expected, o.String()
			}
		}
	}
	if html.UnescapeString(out) != want {
		return false, "unescape-mismatch/" + ctx, expected, o.String()
	}
	// single and double quotes stay as written
	for _, q := range []string{`"`, "'"} {
		if strings.Count(out, q) != strings.Count(want, q) {
			return false, "quote-not-as-written/" + ctx, expected, o.String()
		}
	}
	return true, "", expected, o.String()
}

func c10Run(c *Ctx) {
	order := int64(0)
	maxLen, treeLen := 4, 2
	if c.Thorough() {
		maxLen, treeLen = 5, 3
	}
	for k := 0; k <= maxLen; k++ {
		if !seqEnum(c, len(c10Lexemes), k, func(idx []int) bool {
			if c.Expired() {
				return false
			}
			for q := 0; q < 2; q++ {
				base := c10Case{Lex: append([]int{}, idx...), Quote: q}
				text, _, valid := c10Literal(base)
				if !valid {
					continue
				}
				for ci, name := range c10Contexts {
					isTree := name == "insert-arg" || name == "component-arg" || name == "component-arg-raw" || name == "insert-block" || name == "slot-body" || strings.HasPrefix(name, "insert-arg-")
					if isTree && k > treeLen {
						continue
					}
					cs := base
					cs.Ctx = ci
					order++
					c.Trace(cs)
					ok, sig, exp, obs := c10Check(cs)
					c.Evals(1)
					c.Case(strings.ContainsAny(text, "<>&\"'"))
					if order%2999 == 1 {
						c.Sample(map[string]any{"literal": text, "context": name, "observed": obs})
					}
					if !ok {
						c.Report(sig, int64(k)*100000000+int64(len(text))*100000+order%100000, cs, exp, obs, "")
					}
				}
			}
			return true
		}) {
			return
		}
	}
}

func init() {
	p := &Property{
		ID:    "C10",
		Level: "exploration",
		Rule: "bounded-exhaustive: every literal content of <=k lexemes over {a < > & \" ' ; # &amp; &lt; &#34; &#39; &quot; é newline backslash} x both quote styles (own quote backslash-escaped) x 33 usage contexts (as built: also evaluated in every pass of a loop, after raw() of the same value, as last / only / nested array element) (printed, concatenated, variable, array element, ternary arm, raw() of each, insert expression and block, component argument (also raw inside the component), slot body). " +
			"Oracle: no raw < or >, every & starts an entity, quotes as written, html.UnescapeString(output) == literal; raw(): output == literal. Non-trivial: the literal contains one of < > & \" '",
		Bounds: func(tier string) map[string]any {
			if tier == "thorough" {
				return map[string]any{"lexemes": len(c10Lexemes), "len": 5, "len_tree_contexts": 3, "contexts": len(c10Contexts)}
			}
			return map[string]any{"lexemes": len(c10Lexemes), "len": 4, "len_tree_contexts": 2, "contexts": len(c10Contexts)}
		},
		Assume: []string{"a backslash directly before a quote, before another backslash or at the end of the literal is outside the alphabet (how it reads is not stated)"},
		Run:    c10Run,
	}
	registerTyped(p, c10Check)
}
