package main

import (
	"encoding/binary"
	"fmt"
	"hash"
	"hash/fnv"
	"reflect"
	"sort"
	"strings"

	textwire "github.com/textwire/textwire/v2"
	rt "github.com/textwire/textwire/v2/zzverifrt"
)

// State vector extracted from the code (DESIGN.md 2.3): a deep hash of every package-level
// variable that the instrumenter registered, of the loaded program table and of caller data.

type deepHasher struct {
	h       hash.Hash64
	visited map[uintptr]int
	depth   int
}

func (d *deepHasher) str(s string) {
	var b [8]byte
	binary.LittleEndian.PutUint64(b[:], uint64(len(s)))
	d.h.Write(b[:])
	d.h.Write([]byte(s))
}

func (d *deepHasher) u64(x uint64) {
	var b [8]byte
	binary.LittleEndian.PutUint64(b[:], x)
	d.h.Write(b[:])
}

func (d *deepHasher) val(v reflect.Value) {
	if !v.IsValid() {
		d.str("<invalid>")
		return
	}
	d.depth++
	defer func() { d.depth-- }()
	if d.depth > 200 {
		d.str("<deep>")
		return
	}
	d.str(v.Kind().String())
	switch v.Kind() {
	case reflect.Bool:
		if v.Bool() {
			d.u64(1)
		} else {
			d.u64(0)
		}
	case reflect.Int, reflect.Int8, reflect.Int16, reflect.Int32, reflect.Int64:
		d.u64(uint64(v.Int()))
	case reflect.Uint, reflect.Uint8, reflect.Uint16, reflect.Uint32, reflect.Uint64, reflect.Uintptr:
		d.u64(v.Uint())
	case reflect.Float32, reflect.Float64:
		d.str(fmt.Sprint(v.Float()))
	case reflect.Complex64, reflect.Complex128:
		d.str(fmt.Sprint(v.Complex()))
	case reflect.String:
		d.str(v.String())
	case reflect.Func:
		if v.IsNil() {
			d.u64(0)
		} else {
			d.u64(uint64(v.Pointer())) // code pointer
		}
	case reflect.Chan, reflect.UnsafePointer:
		d.u64(uint64(v.Pointer()))
	case reflect.Pointer:
		if v.IsNil() {
			d.u64(0)
			return
		}
		// cycle detection along the current path only: shared (DAG) pointers are hashed in full
		// every time, so the hash does not depend on the traversal order of maps
		p := v.Pointer()
		if _, onPath := d.visited[p]; onPath {
			d.str("<cycle>")
			return
		}
		d.visited[p] = 1
		d.val(v.Elem())
		delete(d.visited, p)
	case reflect.Interface:
		if v.IsNil() {
			d.u64(0)
			return
		}
		d.str(v.Elem().Type().String())
		d.val(v.Elem())
	case reflect.Slice:
		if v.IsNil() {
			d.str("<nilslice>")
			return
		}
		d.u64(uint64(v.Len()))
		for i := 0; i < v.Len(); i++ {
			d.val(v.Index(i))
		}
	case reflect.Array:
		for i := 0; i < v.Len(); i++ {
			d.val(v.Index(i))
		}
	case reflect.Map:
		if v.IsNil() {
			d.str("<nilmap>")
			return
		}
		// order-independent: hash each entry separately, sort the entry hashes
		var ents []uint64
		it := v.MapRange()
		for it.Next() {
			sub := &deepHasher{h: fnv.New64a(), visited: d.visited, depth: d.depth}
			sub.val(it.Key())
			sub.val(it.Value())
			ents = append(ents, sub.h.Sum64())
		}
		sort.Slice(ents, func(i, j int) bool { return ents[i] < ents[j] })
		d.u64(uint64(len(ents)))
		for _, e := range ents {
			d.u64(e)
		}
	case reflect.Struct:
		t := v.Type()
		for i := 0; i < v.NumField(); i++ {
			d.str(t.Field(i).Name)
			d.val(v.Field(i))
		}
	}
}

func hashValue(v any) uint64 {
	d := &deepHasher{h: fnv.New64a(), visited: map[uintptr]int{}}
	d.val(reflect.ValueOf(v))
	return d.h.Sum64()
}

// stateVector hashes every registered package-level variable (by name) plus the program table.
// skip lists variable-name suffixes left out (e.g. the mode flag when only the "restricted"
// vector of C16 is wanted).
func stateVector(tpl *textwire.Template, skip ...string) (key uint64, parts map[string]uint64) {
	parts = map[string]uint64{}
	for _, vi := range rt.Vars {
		skipIt := false
		for _, s := range skip {
			if strings.HasSuffix(vi.Name, s) {
				skipIt = true
			}
		}
		if skipIt || strings.HasSuffix(vi.Name, ".defaultErrorPage") && false {
			continue
		}
		rv := reflect.ValueOf(vi.Ptr)
		parts[vi.Name] = hashValue(rv.Elem().Interface())
	}
	if tpl != nil {
		progs := textwire.VerifPrograms(tpl)
		parts["Template.programs"] = hashValue(progs)
	}
	names := make([]string, 0, len(parts))
	for n := range parts {
		names = append(names, n)
	}
	sort.Strings(names)
	h := fnv.New64a()
	for _, n := range names {
		h.Write([]byte(n))
		var b [8]byte
		binary.LittleEndian.PutUint64(b[:], parts[n])
		h.Write(b[:])
	}
	return h.Sum64(), parts
}

func stateVarNames() []string {
	var out []string
	for _, vi := range rt.Vars {
		out = append(out, vi.Name)
	}
	sort.Strings(out)
	return append(out, "Template.programs", "caller data")
}

// diffParts names the components of two state vectors that differ.
func diffParts(a, b map[string]uint64) []string {
	var out []string
	for k, v := range a {
		if b[k] != v {
			out = append(out, k)
		}
	}
	for k := range b {
		if _, ok := a[k]; !ok {
			out = append(out, k)
		}
	}
	sort.Strings(out)
	return out
}
