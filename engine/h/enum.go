package main

import "sort"

// Bounded exhaustive enumerators (DESIGN.md section 3, explorer 1).

// seqEnum calls fn for every sequence of exactly k indices below n, in lexicographic order
// (index 0 = simplest lexeme first). Blocks of the first min(k,2) positions are sharded.
// fn returns false to stop (deadline).
func seqEnum(c *Ctx, n, k int, fn func(idx []int) bool) bool {
	if k == 0 {
		if c.Mine() {
			return fn(nil)
		}
		return true
	}
	idx := make([]int, k)
	head := 2
	if k < 2 {
		head = k
	}
	var rec func(pos int) bool
	rec = func(pos int) bool {
		if pos == head {
			if !c.Mine() {
				return true
			}
		}
		if pos == k {
			return fn(idx)
		}
		for i := 0; i < n; i++ {
			idx[pos] = i
			if !rec(pos + 1) {
				return false
			}
		}
		return true
	}
	return rec(0)
}

// product calls fn for every tuple of the cartesian product of the given sizes (no sharding).
func product(sizes []int, fn func(idx []int) bool) bool {
	idx := make([]int, len(sizes))
	var rec func(pos int) bool
	rec = func(pos int) bool {
		if pos == len(sizes) {
			return fn(idx)
		}
		for i := 0; i < sizes[pos]; i++ {
			idx[pos] = i
			if !rec(pos + 1) {
				return false
			}
		}
		return true
	}
	return rec(0)
}

// permutations of 0..n-1 in lexicographic order; index 0 is the identity.
func permutations(n int) [][]int {
	var out [][]int
	a := make([]int, n)
	for i := range a {
		a[i] = i
	}
	var rec func(k int, cur []int, used []bool)
	rec = func(k int, cur []int, used []bool) {
		if k == n {
			out = append(out, append([]int(nil), cur...))
			return
		}
		for i := 0; i < n; i++ {
			if !used[i] {
				used[i] = true
				rec(k+1, append(cur, i), used)
				used[i] = false
			}
		}
	}
	rec(0, nil, make([]bool, n))
	return out
}

// sortedKeys returns the keys of a string-keyed map in ascending order.
func sortedKeys[V any](m map[string]V) []string {
	ks := make([]string, 0, len(m))
	for k := range m {
		ks = append(ks, k)
	}
	sort.Strings(ks)
	return ks
}
