package main

import (
	"fmt"
	"os"
	"path/filepath"
	"sort"
	"strings"

	textwire "github.com/textwire/textwire/v2"
	"github.com/textwire/textwire/v2/lexer"
	"github.com/textwire/textwire/v2/parser"
	rt "github.com/textwire/textwire/v2/zzverifrt"
)

// C18 — templates are addressable by relative name; a bad file fails loading cleanly.

type c18Case struct {
	Mode    string `json:"mode"`            // tree | fault
	Files   []int  `json:"files,omitempty"` // tree: indices into the candidate list
	Ext     int    `json:"ext,omitempty"`
	Spell   int    `json:"spell,omitempty"`
	Layout  bool   `json:"layout,omitempty"` // tree: the first file declares a reserve
	Base    int    `json:"base,omitempty"`   // fault: which valid tree
	Target  string `json:"target,omitempty"` // fault: file (relative, with extension)
	Fault   string `json:"fault,omitempty"`  // deleted | truncated | garbage | symlink | directory
	Cut     int    `json:"cut,omitempty"`
	Reload  bool   `json:"reload,omitempty"` // fault: the valid tree was loaded once in this process before the fault is applied
	Garbage int    `json:"garbage,omitempty"`
}

var c18Exts = []string{".tw", ".tw.html", ".html"}
var c18Spellings = []struct{ dir, real string }{
	{"t", "t"}, {"t/", "t"}, {"t//", "t"}, {"./t", "t"}, {"t/.", "t"}, {"r/../t", "t"}, {"r/t", "r/t"}, {"./r/t/", "r/t"},
	// spellings that resolve to the working directory itself
	{".", "."}, {"./", "."}, {"r/..", "."}, {"r/../r/t/../..", "."},
}

// candidate file names (EXT is replaced by the extension)
var c18Candidates = []string{
	"aEXT", "bEXT", "d/aEXT", "d/e/aEXT",
	"aEXT.bak", "bxEXTy", "c.txt", "aEXTEXT", "d/bEXT.bak", "myEXT2EXT",
	"dirEXT/inner.txt", "dirEXT/inEXT", "d/e/noext", "EXT", "d/.hiddenEXT",
}

func c18Name(cand, ext string) string { return strings.ReplaceAll(cand, "EXT", ext) }

func c18TreeBuild(cs c18Case) (t Tree, want map[string]string, layouts map[string]bool) {
	ext := c18Exts[cs.Ext]
	sp := c18Spellings[cs.Spell]
	t = Tree{Dir: sp.dir, RealDir: sp.real, Ext: ext, Files: map[string]string{}, Extra: []string{"r", "r/t"}}
	want = map[string]string{}
	layouts = map[string]bool{}
	for i, ix := range cs.Files {
		name := c18Name(c18Candidates[ix], ext)
		content := fmt.Sprintf("<F%d %s>", ix, "x")
		if ix%2 == 1 {
			content += "\r\nsecond line\rthird" // CR LF and a lone CR are bytes of the file like any other
		}
		isLayout := cs.Layout && i == 0
		if isLayout {
			content += `@reserve("z")`
		}
		t.Files[name] = content
		if strings.HasSuffix(name, ext) {
			reg := strings.TrimSuffix(name, ext)
			if isLayout {
				layouts[reg] = true
			} else {
				want[reg] = content
			}
		}
	}
	return t, want, layouts
}

func c18CheckTree(cs c18Case) (ok bool, sig, expected, observed string) {
	t, want, layouts := c18TreeBuild(cs)
	t.write()
	ext := c18Exts[cs.Ext]
	var files []string
	for f := range t.Files {
		files = append(files, f)
	}
	sort.Strings(files)
	desc := fmt.Sprintf("dir=%q ext=%q files=%v", t.Dir, ext, files)
	tpl, lo := t.load()
	feat := fmt.Sprintf("ext%s/spell:%s", ext, t.Dir)
	if lo.Kind == KPanic || lo.Kind == KHang {
		return false, "load-" + lo.Kind + "@" + lo.Site, "no crash for " + desc, lo.String()
	}
	if lo.Kind != KOut {
		return false, "load-failed/" + feat, "the tree loads: " + desc, lo.String()
	}
	// registered names = exactly the relative paths, minus extension, of the files whose name ends in the extension
	got := textwire.VerifProgramNames(tpl)
	sort.Strings(got)
	var wantNames []string
	for n := range want {
		wantNames = append(wantNames, n)
	}
	sort.Strings(wantNames)
	expected = fmt.Sprintf("registered names %v for %s", wantNames, desc)
	if strings.Join(got, "|") != strings.Join(wantNames, "|") {
		// which candidate shapes are involved
		var odd []string
		for _, g := range got {
			if _, ok := want[g]; !ok {
				odd = append(odd, "extra:"+g)
			}
		}
		for _, w := range wantNames {
			found := false
			for _, g := range got {
				found = found || g == w
			}
			if !found {
				odd = append(odd, "missing:"+w)
			}
		}
		s := strings.Join(odd, ",")
		s = strings.ReplaceAll(s, strings.TrimPrefix(ext, "."), "EXT")
		return false, "wrong-registered-names/" + clip(s, 60) + "/spell:" + t.Dir, expected, fmt.Sprintf("registered %v", got)
	}
	for n, content := range want {
		o := render(tpl, n, nil)
		if o.Kind != KOut || o.Out != content {
			return false, "wrong-content/" + feat, fmt.Sprintf("template %q renders %q (%s)", n, content, desc), o.String()
		}
	}
	for n := range layouts {
		if o := render(tpl, n, nil); o.Kind != KErr {
			return false, "layout-renderable/" + feat, fmt.Sprintf("layout %q is not directly renderable (%s)", n, desc), o.String()
		}
	}
	for _, n := range []string{"nope", "d/nope", "a" + ext, "c", "c.txt", ""} {
		if _, isT := want[n]; isT {
			continue
		}
		o := render(tpl, n, nil)
		if o.Kind == KPanic || o.Kind == KHang {
			return false, o.Kind + "@" + o.Site, "no crash", o.String()
		}
		if o.Kind != KErr {
			return false, "unknown-name-rendered/" + feat, fmt.Sprintf("unknown name %q is reported as not found (%s)", n, desc), o.String()
		}
	}
	// after renders that did not find their name, the same tree loads again in the same process, with the same names
	tpl2, lo2 := t.loadKeep()
	if lo2.Kind == KPanic || lo2.Kind == KHang {
		return false, "second-load-" + lo2.Kind + "@" + lo2.Site, "the tree loads a second time in the same process (" + desc + ")", lo2.String()
	}
	if lo2.Kind != KOut {
		return false, "second-load-failed/" + feat, "the tree loads a second time in the same process (" + desc + ")", lo2.String()
	}
	got2 := textwire.VerifProgramNames(tpl2)
	sort.Strings(got2)
	if strings.Join(got2, "|") != strings.Join(got, "|") {
		return false, "second-load-other-names/" + feat, expected, fmt.Sprintf("registered %v, then %v", got, got2)
	}
	// evaluating a file by path equals evaluating its content as a string
	for f, content := range t.Files {
		p := t.abs(f)
		fo := guard(func() Outcome {
			out, err := textwire.EvaluateFile(p, nil)
			if err != nil {
				return parseErr(err)
			}
			return Outcome{Kind: KOut, Out: out}
		})
		so := runString(content, nil)
		if fo.Kind != so.Kind || fo.Out != so.Out {
			return false, "evaluate-file-differs/" + feat, "EvaluateFile(path) == EvaluateString(content) for " + f, fo.String() + " vs " + so.String()
		}
	}
	return true, "", expected, fmt.Sprintf("registered %v", got)
}

// ---------------------------------------------------------------------------------------------
// fault enumeration on valid trees

type c18Base struct {
	files map[string]string
	pages map[string]string   // page name -> expected output
	uses  map[string][]string // file -> pages that depend on it (as layout / component)
}

func c18Bases() []c18Base {
	return []c18Base{
		{
			files: map[string]string{
				"index.tw":    "@use(\"lay\")\n@insert(\"title\", \"T\")\n@insert(\"body\")<b>{{ 1 + 1 }}</b>@component(\"comp\", {a: 3})@end",
				"lay.tw":      "<html>@reserve(\"title\")|@reserve(\"body\")</html>",
				"comp.tw":     "<c>{{ a }}@slot</c>",
				"other.tw":    "other {{ \"x\" }}",
				"sub/page.tw": "@if(true)sub@end",
			},
			pages: map[string]string{"index": "<html>T|<b>2</b><c>3</c></html>", "other": "other x", "sub/page": "sub"},
			uses:  map[string][]string{"lay.tw": {"index"}, "comp.tw": {"index"}},
		},
		{
			files: map[string]string{
				"a.tw":               "@component(\"~card\", {t: \"A\"})@slot(\"s\")body@end@end",
				"components/card.tw": "[{{ t }}:@slot(\"s\")]",
				"b.tw":               "@each(v in [1, 2]){{ v }}@end",
			},
			pages: map[string]string{"a": "[A:body]", "b": "12"},
			uses:  map[string][]string{"components/card.tw": {"a"}},
		},
		{
			files: map[string]string{
				"p.tw":            "@use(\"~main\")@insert(\"c\"){{-- note --}}P@end",
				"layouts/main.tw": "<m>\n@reserve(\"c\")\n</m>",
				"q.tw":            "{{ x = 5 }}{{ x }}",
			},
			pages: map[string]string{"p": "<m>\nP\n</m>", "q": "5"},
			uses:  map[string][]string{"layouts/main.tw": {"p"}},
		},
		{
			// the layout has no reserve (so it is a page as well), sorts after the page that uses it, and uses a component itself
			files: map[string]string{
				"a.tw":    "@use(\"zlay\")",
				"zlay.tw": "<z>@component(\"zc\", {n: 1})</z>",
				"zc.tw":   "C{{ 1 + 1 }}",
				"m.tw":    "middle",
			},
			pages: map[string]string{"a": "<z>C2</z>", "zlay": "<z>C2</z>", "zc": "C2", "m": "middle"},
			uses:  map[string][]string{"zlay.tw": {"a"}, "zc.tw": {"a", "zlay"}},
		},
		{
			// a layout without a reserve (so it is a page as well) that sorts BEFORE the page that uses it
			files: map[string]string{
				"alay.tw": "<y>plain</y>",
				"b.tw":    "@use(\"alay\")",
				"c/d.tw":  "@use(\"alay\")text that is dropped",
			},
			pages: map[string]string{"alay": "<y>plain</y>", "b": "<y>plain</y>", "c/d": "<y>plain</y>"},
			uses:  map[string][]string{"alay.tw": {"b", "c/d"}},
		},
		{
			// a layout that no page uses, with a component of its own: the component is a file the tree depends on all the same
			files: map[string]string{
				"home.tw":   "plain",
				"lonely.tw": "<l>@reserve(\"r\")@component(\"box\", {n: 1})</l>",
				"box.tw":    "[box{{ 1 + 1 }}]",
			},
			pages: map[string]string{"home": "plain", "box": "[box2]"},
			uses:  map[string][]string{"box.tw": {"lonely"}},
		},
		{
			// per cent signs in file, layout and component names (they must come through error messages unharmed)
			files: map[string]string{
				"p%d.tw":      "@use(\"lay%s\")@insert(\"c\")X@component(\"c%v/card\")@end",
				"lay%s.tw":    "<m>@reserve(\"c\")</m>",
				"c%v/card.tw": "[card]",
				"q.tw":        "100%",
			},
			pages: map[string]string{"p%d": "<m>X[card]</m>", "q": "100%", "c%v/card": "[card]"},
			uses:  map[string][]string{"lay%s.tw": {"p%d"}, "c%v/card.tw": {"p%d"}},
		},
	}
}

var c18Garbage = []string{"{{", "@if(", "{{ 1 +", "{{ ^ }}", "@each(v in", "{{--", "@if(true)x", "@component(", "{{ \"abc", "@insert(\"a\")x", "\xff{{ \xff }}", "@end@end{{ }}"}

func c18CheckFault(cs c18Case) (ok bool, sig, expected, observed string) {
	base := c18Bases()[cs.Base]
	t := Tree{Dir: "t", Ext: ".tw", Files: map[string]string{}}
	for f, s := range base.files {
		t.Files[f] = s
	}
	orig := base.files[cs.Target]
	broken := "" // content of the faulty file ("" with parseBroken=false when it has none)
	hasContent := false
	switch cs.Fault {
	case "deleted", "symlink", "directory":
		delete(t.Files, cs.Target)
	case "truncated":
		t.Files[cs.Target] = orig[:cs.Cut]
		broken, hasContent = orig[:cs.Cut], true
	case "garbage":
		t.Files[cs.Target] = c18Garbage[cs.Garbage]
		broken, hasContent = c18Garbage[cs.Garbage], true
	}
	if cs.Reload {
		// first the intact tree is loaded; the fault is applied afterwards and the tree loaded again in the same process
		valid := Tree{Dir: "t", Ext: ".tw", Files: base.files}
		valid.write()
		if _, lo0 := valid.load(); lo0.Kind != KOut {
			return false, "valid-tree-does-not-load", "the intact tree loads", lo0.String()
		}
		if c, has := t.Files[cs.Target]; has {
			t.rewriteFile(cs.Target, c, false)
		} else {
			t.rewriteFile(cs.Target, "", true)
		}
	} else {
		t.write()
	}
	switch cs.Fault {
	case "symlink":
		must(os.MkdirAll(filepath.Dir(t.abs(cs.Target)), 0o755))
		must(os.Symlink(filepath.Join(enterScratch(), "does-not-exist"), t.abs(cs.Target)))
	case "directory":
		must(os.MkdirAll(t.abs(cs.Target), 0o755))
	}
	desc := fmt.Sprintf("tree %d, %s %s", cs.Base, cs.Target, cs.Fault)
	if cs.Fault == "truncated" {
		desc += fmt.Sprintf(" at %d (%q)", cs.Cut, broken)
	}
	if cs.Fault == "garbage" {
		desc += fmt.Sprintf(" %q", broken)
	}
	var tpl *textwire.Template
	var lo Outcome
	if cs.Reload {
		desc += " (after the intact tree had been loaded in the same process)"
		tpl, lo = t.loadKeep()
	} else {
		tpl, lo = t.load()
	}
	if lo.Kind == KPanic || lo.Kind == KHang {
		return false, "load-" + lo.Kind + "@" + lo.Site, "no crash for " + desc, lo.String()
	}
	if lo.Kind == KErr && lo.Out != "" {
		return false, "template-and-error", "never (tpl, err) for " + desc, lo.String()
	}
	// is the faulty content syntactically wrong on its own?
	syntaxBad := false
	if hasContent {
		g := guard(func() Outcome {
			p := parser.New(lexer.New(broken), "")
			p.ParseProgram()
			if len(p.Errors()) > 0 {
				return Outcome{Kind: KErr}
			}
			return Outcome{Kind: KOut}
		})
		syntaxBad = g.Kind != KOut
	}
	isDep := len(base.uses[cs.Target]) > 0
	mustFail := false
	why := ""
	switch {
	case syntaxBad:
		mustFail, why = true, "syntactically wrong file"
	case isDep && (cs.Fault == "deleted" || cs.Fault == "symlink" || cs.Fault == "directory"):
		mustFail, why = true, "a layout/component that a page uses is missing or unreadable"
	case cs.Fault == "symlink":
		mustFail, why = true, "unreadable page file"
	}
	nameNoExt := strings.TrimSuffix(cs.Target, ".tw")
	shortName := nameNoExt
	if i := strings.LastIndex(nameNoExt, "/"); i >= 0 && (strings.HasPrefix(nameNoExt, "components/") || strings.HasPrefix(nameNoExt, "layouts/")) {
		shortName = nameNoExt[i+1:]
	}
	if mustFail {
		expected = fmt.Sprintf("(nil, error identifying %s): %s — %s", cs.Target, why, desc)
		if lo.Kind != KErr {
			return false, "fault-accepted/" + cs.Fault + "/" + roleOf(cs, isDep), expected, lo.String()
		}
		if !strings.Contains(lo.Raw, t.abs(cs.Target)) && !strings.Contains(lo.Raw, "'"+nameNoExt+"'") && !strings.Contains(lo.Raw, "'"+shortName+"'") && !strings.Contains(lo.Raw, "'~"+shortName+"'") {
			return false, "error-does-not-identify-file/" + cs.Fault + "/" + roleOf(cs, isDep), expected, lo.String()
		}
		return true, "", expected, lo.String()
	}
	if lo.Kind == KErr {
		// a valid-looking truncation may still break its dependants (a layout that lost its reserve): an error is admissible
		if cs.Fault == "truncated" || cs.Fault == "garbage" {
			return true, "", "load may fail: " + desc, lo.String()
		}
		return false, "load-failed-without-need/" + cs.Fault + "/" + roleOf(cs, isDep), "a deleted page or a directory in a page's place is simply not registered: loading succeeds — " + desc, lo.String()
	}
	// loaded: every other template renders as before
	for name, want := range base.pages {
		if name == nameNoExt {
			continue
		}
		dependsOnTarget := false
		for _, pg := range base.uses[cs.Target] {
			dependsOnTarget = dependsOnTarget || pg == name
		}
		if dependsOnTarget {
			continue
		}
		o := render(tpl, name, nil)
		if o.Kind != KOut || o.Out != want {
			return false, "other-template-changed/" + cs.Fault, fmt.Sprintf("template %q still renders %q — %s", name, want, desc), o.String()
		}
	}
	if cs.Fault == "deleted" || cs.Fault == "directory" {
		if o := render(tpl, nameNoExt, nil); o.Kind != KErr {
			return false, "removed-page-renderable/" + cs.Fault, "the removed page is reported as not found — " + desc, o.String()
		}
	}
	return true, "", "loads; other templates unaffected — " + desc, "loaded"
}

func roleOf(cs c18Case, isDep bool) string {
	if isDep {
		if strings.Contains(cs.Target, "lay") || strings.Contains(cs.Target, "main") {
			return "layout"
		}
		return "component"
	}
	return "page"
}

// c18CheckReserveFiles: "files that declare reserves are layouts and are not directly renderable", whatever else they hold.
func c18CheckReserveFiles(cs c18Case) (bool, string, string, string) {
	shapes := []string{
		`<b>@reserve("w")</b>`,                                // a plain layout
		`@use("base")@insert("w")X@end@reserve("z")`,          // uses a layout itself and declares a reserve
		`@if(true)@reserve("z")@end`,                          // the reserve sits in a block
		`@reserve("z", "unused")text {{ 1 }}`,                 // a reserve among other content
		`@component("card")@reserve("z")`,                     // next to a component
	}
	t := Tree{Dir: "t", Ext: ".tw", Files: map[string]string{"base.tw": `<b>@reserve("w")</b>`, "card.tw": "[c]", "pg.tw": "plain", "mid.tw": shapes[cs.Cut%len(shapes)]}}
	t.write()
	tpl, lo := t.load()
	expected := "a file that declares a reserve is not registered as a renderable template: " + t.Files["mid.tw"]
	if lo.Kind != KOut {
		if lo.Kind == KPanic || lo.Kind == KHang {
			return false, lo.Kind + "@" + lo.Site, expected, lo.String()
		}
		return true, "", expected, lo.String() // rejected at load: not renderable either
	}
	for _, n := range textwire.VerifProgramNames(tpl) {
		if n == "mid" || n == "base" {
			return false, "reserve-file-registered-as-page", expected, "registered names: " + strings.Join(textwire.VerifProgramNames(tpl), ",")
		}
	}
	if o := render(tpl, "mid", nil); o.Kind != KErr {
		return false, "reserve-file-renderable", expected, o.String()
	}
	if o := render(tpl, "pg", nil); o.Kind != KOut || o.Out != "plain" {
		return false, "plain-page-lost", expected, o.String()
	}
	return true, "", expected, "not renderable"
}

// c18CheckCwd: a relative directory spelling means "relative to the working directory at the time of the load".
// Two different trees sit under the same relative spelling in two working directories; the process loads the first,
// changes its working directory, and loads the second (optionally with a fault in it): the second load must see the
// second tree only.
var c18CwdSpells = []struct{ dir, real string }{{"t", "t"}, {"./t/", "t"}, {"r/../t", "t"}, {".", "."}, {"r/t", "r/t"}}

func c18CheckCwd(cs c18Case) (ok bool, sig, expected, observed string) {
	root := enterScratch()
	defer func() { must(os.Chdir(root)) }()
	sp := c18CwdSpells[cs.Spell%len(c18CwdSpells)]
	a := Tree{Dir: sp.dir, RealDir: filepath.Join("w1", sp.real), Ext: ".tw", Extra: []string{"w1/r", "w2/r"},
		Files: map[string]string{"lay.tw": `<A>@reserve("w")</A>`, "home.tw": `@use("lay")@insert("w")homeA@end`, "only-a.tw": "onlyA", "bad.tw": "x\n{{ zz }}"}}
	b := Tree{Dir: sp.dir, RealDir: filepath.Join("w2", sp.real), Ext: ".tw",
		Files: map[string]string{"lay.tw": `<B>@reserve("w")</B>`, "home.tw": `@use("lay")@insert("w")homeB@end`, "only-b.tw": "onlyB"}}
	switch cs.Fault {
	case "deleted":
		delete(b.Files, "lay.tw")
	case "garbage":
		b.Files["only-b.tw"] = "{{ 1 + }}"
	}
	a.write()
	b.writeKeep()
	feat := fmt.Sprintf("%s/spell:%s", cs.Fault, sp.dir)
	must(os.Chdir(filepath.Join(root, "w1")))
	ta, lo := a.loadKeep()
	expected = "each load resolves the relative directory against the working directory of that moment"
	if lo.Kind != KOut {
		return false, "cwd/first-load-failed/" + feat, expected, lo.String()
	}
	if o := render(ta, "home", nil); o.Kind != KOut || o.Out != "<A>homeA</A>" {
		return false, "cwd/first-tree-wrong/" + feat, expected, o.String()
	}
	must(os.Chdir(filepath.Join(root, "w2")))
	tb, lo := b.loadKeep()
	if lo.Kind == KPanic || lo.Kind == KHang {
		return false, "cwd/" + lo.Kind + "@" + lo.Site, expected, lo.String()
	}
	if cs.Fault != "" {
		if lo.Kind == KOut {
			return false, "cwd/faulty-second-tree-loaded/" + feat, expected + "; the second tree is faulty (" + cs.Fault + ")", "loaded: " + strings.Join(textwire.VerifProgramNames(tb), ",")
		}
		return true, "", expected, lo.String()
	}
	if lo.Kind != KOut {
		return false, "cwd/second-load-failed/" + feat, expected, lo.String()
	}
	names := textwire.VerifProgramNames(tb)
	sort.Strings(names)
	if strings.Join(names, ",") != "home,only-b" {
		return false, "cwd/second-tree-names/" + feat, expected + ": home,only-b", strings.Join(names, ",")
	}
	if o := render(tb, "home", nil); o.Kind != KOut || o.Out != "<B>homeB</B>" {
		return false, "cwd/second-tree-content/" + feat, expected, o.String()
	}
	if o := render(ta, "home", nil); o.Kind != KOut || o.Out != "<A>homeA</A>" {
		return false, "cwd/first-template-changed/" + feat, expected, o.String()
	}
	// a fault of the first tree is still reported with the absolute path of its file (where the process stands now does not matter)
	if o := render(ta, "bad", nil); o.Kind != KErr || o.Path != filepath.Join(root, "w1", sp.real, "bad.tw") || o.Line != 2 {
		return false, "cwd/fault-path-after-chdir/" + feat, "an error at line 2 of " + filepath.Join(root, "w1", sp.real, "bad.tw"), o.String()
	}
	return true, "", expected, "ok"
}

func c18Check(cs c18Case) (bool, string, string, string) {
	rt.ResetRoot()
	if cs.Mode == "reserve-files" {
		return c18CheckReserveFiles(cs)
	}
	if cs.Mode == "cwd" {
		return c18CheckCwd(cs)
	}
	if cs.Mode == "tree" {
		return c18CheckTree(cs)
	}
	return c18CheckFault(cs)
}

func c18Run(c *Ctx) {
	enterScratch()
	order := int64(0)
	do := func(cs c18Case, nontriv bool) bool {
		if c.Expired() {
			return false
		}
		order++
		c.Trace(cs)
		ok, sig, exp, obs := c18Check(cs)
		c.Evals(1)
		c.Case(nontriv)
		if order%199 == 1 {
			c.Sample(map[string]any{"case": cs, "expected": clip(exp, 300), "observed": clip(obs, 200)})
		}
		if !ok {
			c.Report(sig, order, cs, exp, obs, "")
		}
		return true
	}
	// (b) faults first (few)
	for bi, base := range c18Bases() {
		if c.Mine() {
			if !do(c18Case{Mode: "fault", Base: bi, Target: "does-not-exist.tw", Fault: "deleted"}, true) { // the intact tree itself
				return
			}
		}
		var files []string
		for f := range base.files {
			files = append(files, f)
		}
		sort.Strings(files)
		for _, f := range files {
			if !c.Mine() {
				continue
			}
			for _, flt := range []string{"deleted", "symlink", "directory"} {
				for _, reload := range []bool{false, true} {
					if !do(c18Case{Mode: "fault", Base: bi, Target: f, Fault: flt, Reload: reload}, true) {
						return
					}
				}
			}
			for cut := 0; cut < len(base.files[f]); cut++ {
				if !do(c18Case{Mode: "fault", Base: bi, Target: f, Fault: "truncated", Cut: cut}, true) {
					return
				}
			}
			for g := range c18Garbage {
				for _, reload := range []bool{false, true} {
					if !do(c18Case{Mode: "fault", Base: bi, Target: f, Fault: "garbage", Garbage: g, Reload: reload}, true) {
						return
					}
				}
			}
			for cut := 0; cut < len(base.files[f]); cut += 3 {
				if !do(c18Case{Mode: "fault", Base: bi, Target: f, Fault: "truncated", Cut: cut, Reload: true}, true) {
					return
				}
			}
		}
	}
	// (c) files that declare reserves, in five shapes
	if c.Mine() {
		for i := 0; i < 5; i++ {
			if !do(c18Case{Mode: "reserve-files", Cut: i}, true) {
				return
			}
		}
	}
	// (d) the working directory changes between two loads of the same relative spelling
	if c.Mine() {
		for sp := range c18CwdSpells {
			for _, flt := range []string{"", "deleted", "garbage"} {
				if !do(c18Case{Mode: "cwd", Spell: sp, Fault: flt}, true) {
					return
				}
			}
		}
	}
	// (a) trees
	maxFiles := 3
	if c.Thorough() {
		maxFiles = 5
	}
	n := len(c18Candidates)
	var rec func(start int, cur []int) bool
	rec = func(start int, cur []int) bool {
		if len(cur) > 0 {
			if len(cur) == 1 && !c.Mine() {
				return true
			}
			for e := range c18Exts {
				for s := range c18Spellings {
					if len(cur) == maxFiles && len(cur) >= 3 && (e+s)%3 != 0 {
						continue // the largest trees rotate through one third of the extension x spelling combinations
					}
					for _, lay := range []bool{false, true} {
						special := false
						for _, ix := range cur {
							special = special || ix >= 4
						}
						if !do(c18Case{Mode: "tree", Files: append([]int{}, cur...), Ext: e, Spell: s, Layout: lay}, special || s > 0) {
							return false
						}
					}
				}
			}
		}
		if len(cur) == maxFiles {
			return true
		}
		for i := start; i < n; i++ {
			if !rec(i+1, append(cur, i)) {
				return false
			}
		}
		return true
	}
	rec(0, nil)
}

func init() {
	p := &Property{
		ID:    "C18",
		Level: "fault_enumeration",
		Rule: "trees: every set of <=k files out of 15 candidate names (four nesting depths; names ending in the extension, containing it in the middle, followed by .bak, doubled extension, a directory whose name contains the extension, a hidden file, a name that is only the extension) x 3 extensions x 12 directory spellings (trailing slashes, ./, /., parent segments, nested, and four that resolve to the working directory itself) x first file layout or not: the registered names must be exactly the relative paths minus extension of the files whose name ends in the extension, each renders its content, layouts and unknown names are not found, EvaluateFile equals EvaluateString; faults: for every file of three valid trees (pages, layouts, components, ~ aliases): deleted, dangling symlink, a directory in its place, truncated at every byte prefix, replaced by each of 12 garbage inputs — each both on a fresh process state and after the intact tree had been loaded once in the same process; five shapes of reserve-declaring files; working-directory histories: two different trees under the same relative spelling in two working directories, loaded one after the other by one process (5 spellings x second tree intact / layout deleted / page garbage). " +
			"Oracle for faults: never (tpl, err) / (nil, nil) / panic / hang; a syntactically wrong file or a missing/unreadable layout or component of a page makes loading fail with an error identifying the file; a removed page is simply absent and everything else renders as before. Non-trivial: every fault case; tree cases with a non-canonical spelling or a tricky file name",
		Bounds: func(tier string) map[string]any {
			nf := 0
			for _, b := range c18Bases() {
				for _, s := range b.files {
					nf += len(s) + 3 + len(c18Garbage)
				}
			}
			if tier == "thorough" {
				return map[string]any{"files_per_tree": 5, "candidates": len(c18Candidates), "extensions": len(c18Exts), "spellings": len(c18Spellings), "fault_cases": nf, "five_file_trees": "one third of the ext x spelling combinations"}
			}
			return map[string]any{"files_per_tree": 3, "candidates": len(c18Candidates), "extensions": len(c18Exts), "spellings": len(c18Spellings), "fault_cases": nf, "three_file_trees": "one third of the ext x spelling combinations"}
		},
		Assume: []string{"whether a truncated prefix is syntactically wrong is decided by parsing it alone with the real parser (C08 covers the parser's own verdicts)", "I/O errors in the middle of a read and permission errors are not enumerated (the sandbox runs as root)"},
		Run:    c18Run,
	}
	registerTyped(p, c18Check)
}
