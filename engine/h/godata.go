package main

// Catalogue of Go values passed through the data map (C09, C12).

type GDPerson struct {
	Name   string
	Age    int
	hidden int
	Tags   []string
	Inner  *GDInner
	Any    any
}

type GDInner struct {
	K int
	V float32
}

// GDNode: a value that can contain itself.
type GDNode struct {
	Name string
	Next *GDNode
	Kids []any
}

func gdCycle(kind string) any {
	switch kind {
	case "ptr":
		n := &GDNode{Name: "n"}
		n.Next = n
		return n
	case "ptr2":
		a, b := &GDNode{Name: "a"}, &GDNode{Name: "b"}
		a.Next, b.Next = b, a
		return GDNode{Name: "root", Next: a}
	case "map":
		m := map[string]any{"k": 1}
		m["self"] = m
		return m
	default:
		sl := []any{1, nil}
		sl[1] = sl
		return sl
	}
}

type GDBad struct {
	Name string
	C    chan int
}

func gdPtr[T any](v T) *T { return &v }

// goodData: only supported kinds, including nil pointers / nil slices / nil maps at top level and nested.
func goodData() map[string]any {
	var nilInt *int
	var nilPerson *GDPerson
	var nilSlice []int
	var nilMap map[string]int
	return map[string]any{
		"i":   5,
		"i8":  int8(-3),
		"u":   uint(7),
		"u64": uint64(9),
		"f32": float32(1.5),
		"f":   2.5,
		"s":   "str",
		"e":   "é",
		"b":   true,
		"n":   nil,
		"is":  []int{1, 2},
		"ss":  []string{"a", "b"},
		"as":  []any{1, "a", nil},
		"m":   map[string]any{"k": 1, "z": []int{3}},
		"mi":  map[string]int{"a": 1},
		"st":  GDPerson{Name: "Ann", Age: 30, hidden: 1, Tags: []string{"t"}, Inner: &GDInner{K: 2, V: 0.5}, Any: 7},
		"ps":  &GDPerson{Name: "Bob", Age: 40},
		"pi":  gdPtr(11),
		"pps": gdPtr(&GDPerson{Name: "Cy"}),
		"npi": nilInt,
		"nps": nilPerson,
		"nsl": nilSlice,
		"nm":  nilMap,
		"sp":  []*int{gdPtr(1), nil},
		"sn":  GDPerson{Name: "NoInner"},
		"rows": func() []any { // distinct struct types that share one name
			a, _ := c12RowA()
			b, _ := c12RowB()
			cc, _ := c12RowC()
			return []any{a, b, cc, a}
		}(),
	}
}

// badValues: one unsupported value each, at top level and nested.
func badValues() map[string]any {
	return map[string]any{
		"chan":          make(chan int),
		"func":          func() {},
		"complex":       complex(1, 2),
		"array":         [2]int{1, 2},
		"uintptr":       uintptr(1),
		"map-int-key":   map[int]string{1: "a"},
		"slice-of-chan": []any{1, make(chan int)},
		"struct-chan":   GDBad{Name: "x", C: make(chan int)},
		"map-func":      map[string]any{"ok": 1, "c": func() {}},
		"ptr-chan":      gdPtr(make(chan int)),
		"deep":          map[string]any{"a": []any{GDBad{Name: "y"}}},
		// values that contain themselves have no finite shape: an error, not a crash
		"cyclic-pointer":      gdCycle("ptr"),
		"cyclic-two-pointers": gdCycle("ptr2"),
		"cyclic-map":          gdCycle("map"),
		"cyclic-slice":        gdCycle("slice"),
	}
}
