package main

import (
	"fmt"
	"math"
	"strconv"
	"strings"
)

// C01 — expressions follow the precedence table, left associativity and typed arithmetic.

type c01Case struct {
	Mode   string         `json:"mode"` // flat | tree | assign | for | boundary
	Toks   []Tok          `json:"toks"`
	Layout int            `json:"layout"`
	Vars   map[string]Val `json:"vars,omitempty"`
	Ops    string         `json:"ops,omitempty"`
	Wrap   string         `json:"wrap,omitempty"` // print | assign | for
	Toks2  []Tok          `json:"toks2,omitempty"` // mode pair: a second expression printed after the first in the same template
}

func c01Source(cs c01Case) string {
	body := renderToks(cs.Toks, cs.Layout)
	pad := " "
	if cs.Layout == 0 {
		pad = ""
	}
	switch cs.Wrap {
	case "assign":
		return "{{" + pad + "v = " + body + pad + "}}{{ v }}"
	case "for":
		return "@for(i = 0; i < " + body + "; i++)x@end"
	}
	if len(cs.Toks2) > 0 {
		return "{{" + pad + body + pad + "}}|{{" + pad + renderToks(cs.Toks2, cs.Layout) + pad + "}}"
	}
	return "{{" + pad + body + pad + "}}"
}

// c01Expect evaluates the token list in the model.
func c01Expect(cs c01Case) Expect {
	if len(cs.Toks2) > 0 {
		// two expressions of one template are evaluated independently of each other
		a, b := cs, cs
		a.Toks2, b.Toks2 = nil, nil
		b.Toks = cs.Toks2
		ea, eb := c01Expect(a), c01Expect(b)
		switch {
		case ea.Kind == EError || (ea.Kind == EValue && eb.Kind == EError):
			return Expect{Kind: EError}
		case ea.Kind == EValue && eb.Kind == EValue:
			return Expect{Kind: EValue, Text: ea.Text + "|" + eb.Text}
		}
		return Expect{Kind: EUnspec}
	}
	tree, ok := group(cs.Toks)
	if !ok {
		return Expect{Kind: EUnspec}
	}
	sc := newScope(nil)
	for k, v := range cs.Vars {
		sc.vars[k] = v
	}
	v, st := evalExpr(tree, sc)
	switch st {
	case sErr:
		return Expect{Kind: EError}
	case sUnspec:
		return Expect{Kind: EUnspec}
	}
	if cs.Wrap == "for" {
		// "i < <tokens>" is grouped as a whole (the tokens may bind looser than "<") and iterated in the model
		full := append([]Tok{tID("i"), tOp("<")}, cs.Toks...)
		cond, ok := group(full)
		if !ok || v.K != VInt {
			return Expect{Kind: EUnspec}
		}
		n := 0
		for i := int64(0); ; i++ {
			sc.vars["i"] = vInt(i)
			cv, cst := evalExpr(cond, sc)
			if cst == sErr {
				return Expect{Kind: EError}
			}
			if cst != sOK || i > 12 {
				return Expect{Kind: EUnspec}
			}
			if !cv.Truthy() {
				break
			}
			n++
		}
		return Expect{Kind: EValue, Text: strings.Repeat("x", n)}
	}
	if st == sFloatStep {
		ieee, ok1 := printFloat(v.F)
		dec, ok2 := printFloat(decimalRound(tree, sc, v.F))
		if !ok1 || !ok2 {
			return Expect{Kind: EUnspec}
		}
		return Expect{Kind: ESet, Alts: []Expect{{Kind: EValue, Text: ieee}, {Kind: EValue, Text: dec}}}
	}
	s, ok := v.Print()
	if !ok {
		return Expect{Kind: EUnspec}
	}
	return Expect{Kind: EValue, Text: s}
}

// decimalRound: the decimally exact result of x±1 for a float operand with d decimals.
func decimalRound(tree *Expr, sc *Scope, ieee float64) float64 {
	// find the inc/dec node that produced the value (root, or the chosen arm of ternaries)
	for tree.Op == "?:" {
		c, st := evalExpr(tree.Kids[0], sc)
		if st != sOK {
			return ieee
		}
		if c.Truthy() {
			tree = tree.Kids[1]
		} else {
			tree = tree.Kids[2]
		}
	}
	if tree.Op != "inc" && tree.Op != "dec" {
		return ieee
	}
	x, st := evalExpr(tree.Kids[0], sc)
	if st != sOK && st != sFloatStep || x.K != VFloat {
		return ieee
	}
	s := strconv.FormatFloat(x.F, 'f', -1, 64)
	d := 0
	if i := strings.IndexByte(s, '.'); i >= 0 {
		d = len(s) - i - 1
	}
	r, _ := strconv.ParseFloat(strconv.FormatFloat(ieee, 'f', d, 64), 64)
	return r
}

// discriminating: does some other grouping of the same tokens evaluate differently?
func c01Discriminating(cs c01Case) bool {
	canon, ok := group(cs.Toks)
	if !ok {
		return false
	}
	sc := newScope(nil)
	for k, v := range cs.Vars {
		sc.vars[k] = v
	}
	cv, cst := evalExpr(canon, sc)
	flat := map[string]int{}
	swapped := map[string]int{}
	for k, p := range refPrec {
		flat[k], swapped[k] = p, p
		switch p {
		case pEq, pCmp, pAdd, pMul:
			flat[k] = pAdd
		}
	}
	for k, p := range refPrec {
		switch p {
		case pAdd:
			swapped[k] = pMul
		case pMul:
			swapped[k] = pAdd
		case pEq:
			swapped[k] = pCmp
		case pCmp:
			swapped[k] = pEq
		}
	}
	for _, alt := range []struct {
		prec  map[string]int
		right bool
	}{{nil, true}, {flat, false}, {swapped, false}, {flat, true}} {
		t, ok := groupWith(cs.Toks, alt.prec, alt.right)
		if !ok {
			continue
		}
		if sameTree(t, canon) {
			continue
		}
		v, st := evalExpr(t, sc)
		if st != cst || (st == sOK && !v.Equal(cv)) {
			return true
		}
	}
	return false
}

func c01Check(cs c01Case) (ok bool, sig, expected, observed string) {
	exp := c01Expect(cs)
	src := c01Source(cs)
	o := runString(src, dataMap(cs.Vars))
	good, why := conforms(exp, o)
	if good {
		return true, "", exp.String(), o.String()
	}
	sig = why
	if o.Kind == KPanic || o.Kind == KHang {
		sig = o.Kind + "@" + o.Site
	} else {
		sig = why + "/" + cs.Mode
		if cs.Wrap != "" && cs.Wrap != "print" {
			sig += ":" + cs.Wrap
		}
		if cs.Ops != "" {
			sig += "/" + cs.Ops
		}
	}
	return false, sig, exp.String() + " for " + src, o.String()
}

var c01BinOps = []string{"+", "-", "*", "/", "%", "==", "!=", "<", ">", "<=", ">=", "?"}

type c01Set struct {
	name string
	vals []Val
}

func c01Sets() []c01Set {
	return []c01Set{
		{"int", []Val{vInt(7), vInt(3), vInt(2), vInt(5), vInt(4), vInt(9), vInt(6), vInt(11), vInt(13)}},
		{"int2", []Val{vInt(8), vInt(4), vInt(2), vInt(1), vInt(6), vInt(3), vInt(12), vInt(5), vInt(10)}},
		{"float", []Val{vFloat(6.5), vFloat(2.0), vFloat(0.5), vFloat(1.5), vFloat(4.0), vFloat(0.25), vFloat(3.5), vFloat(8.0), vFloat(1.25)}},
		{"str", []Val{vStr("a"), vStr("b"), vStr("ab"), vStr("ba"), vStr("a"), vStr(""), vStr("c"), vStr("abc"), vStr("b")}},
		// floats that need 16-17 significant digits (only used under ++ / --)
		{"floatlong", []Val{vFloat(1.4000000000000001), vFloat(0.30000000000000004), vFloat(2.675), vFloat(1.005), vFloat(123456.789012345), vFloat(0.1), vFloat(1e-7), vFloat(9007199254740993), vFloat(0.7)}},
	}
}

func c01Run(c *Ctx) {
	order := int64(0)
	do := func(cs c01Case) bool {
		if c.Expired() {
			return false
		}
		order++
		c.Trace(cs)
		ok, sig, exp, obs := c01Check(cs)
		c.Evals(1)
		if strings.HasPrefix(obs, "Err(") {
			c.OutcomeClass("err")
		} else {
			c.OutcomeClass("out")
		}
		if !ok {
			c.Report(sig, order, cs, exp, obs, "")
		}
		return true
	}
	names := []string{"a", "b", "c", "d", "e", "f", "g", "h", "j"}

	// flat sequence: operands and operators; "?" contributes "? operand :"
	sameVar := false // when set, every operand is the same variable holding vals[0] (side effects of ++/-- would show)
	buildFlat := func(ops []string, vals []Val, asVar uint, deco []string) ([]Tok, map[string]Val) {
		var toks []Tok
		vars := map[string]Val{}
		n := 0
		operand := func() {
			v := vals[n%len(vals)]
			if sameVar {
				v = vals[0]
			}
			d := ""
			if deco != nil {
				d = deco[n%len(deco)]
			}
			if d == "-" || d == "!" {
				toks = append(toks, tOp(d))
			}
			if sameVar {
				toks = append(toks, tID("a"))
				vars["a"] = v
			} else if asVar&(1<<uint(n)) != 0 {
				toks = append(toks, tID(names[n]))
				vars[names[n]] = v
			} else {
				toks = append(toks, tLit(v))
			}
			if d == "++" || d == "--" {
				toks = append(toks, tOp(d))
			}
			n++
		}
		operand()
		for _, op := range ops {
			toks = append(toks, tOp(op))
			operand()
			if op == "?" {
				toks = append(toks, tOp(":"))
				operand()
			}
		}
		return toks, vars
	}
	nOperands := func(ops []string) int {
		n := 1
		for _, op := range ops {
			n++
			if op == "?" {
				n++
			}
		}
		return n
	}

	sets := c01Sets()
	maxK := 3
	if c.Thorough() {
		maxK = 4
	}
	for k := 1; k <= maxK; k++ {
		stop := !seqEnum(c, len(c01BinOps), k, func(idx []int) bool {
			ops := make([]string, k)
			for i, ix := range idx {
				ops[i] = c01BinOps[ix]
			}
			opsName := strings.Join(ops, ",")
			if k > 2 {
				opsName = fmt.Sprintf("k%d", k)
			}
			nop := nOperands(ops)
			// value vectors: the typed sets, zero injected at every operand position, one mixed-type vector per position
			type vec struct {
				vals []Val
			}
			var vecs []vec
			for _, s := range sets {
				vecs = append(vecs, vec{s.vals})
			}
			for pos := 1; pos < nop; pos++ {
				z := append([]Val{}, sets[0].vals...)
				z[pos] = vInt(0)
				vecs = append(vecs, vec{z})
			}
			if k <= 3 {
				for pos := 0; pos < nop; pos++ {
					m := append([]Val{}, sets[0].vals...)
					m[pos] = vStr("s")
					vecs = append(vecs, vec{m})
					m2 := append([]Val{}, sets[0].vals...)
					m2[pos] = vFloat(1.5)
					vecs = append(vecs, vec{m2})
				}
			}
			for vi, vc := range vecs {
				// literal/variable renderings: all 2^n for the first vectors, all-lit and all-var otherwise
				var masks []uint
				if vi < 2 && k <= 3 {
					for m := uint(0); m < 1<<uint(nop); m++ {
						masks = append(masks, m)
					}
				} else {
					masks = []uint{0, 1<<uint(nop) - 1, 0x2A & (1<<uint(nop) - 1)}
				}
				for _, m := range masks {
					toks, vars := buildFlat(ops, vc.vals, m, nil)
					base := c01Case{Mode: "flat", Toks: toks, Vars: vars, Ops: opsName, Wrap: "print"}
					nontriv := c01Discriminating(base)
					nl := 2
					if m == 0 || vi == 0 {
						nl = 4
					}
					for lay := 0; lay < nl; lay++ {
						cs := base
						cs.Layout = lay
						c.Case(nontriv)
						c.Sample(map[string]any{"src": c01Source(cs), "vars": cs.Vars})
						if !do(cs) {
							return false
						}
					}
					// parenthesis layouts: every layout must evaluate like the tree the model groups
					if tree, ok := group(toks); ok && (m == 0 || m == 1<<uint(nop)-1) {
						var nodes []*Expr
						var walk func(e *Expr)
						walk = func(e *Expr) {
							if len(e.Kids) > 0 {
								nodes = append(nodes, e)
							}
							for _, kk := range e.Kids {
								walk(kk)
							}
						}
						walk(tree)
						variants := [][]Tok{toToks(tree, true)}
						for _, nd := range nodes {
							variants = append(variants, toToksExtra(tree, false, nd))
						}
						for _, vt := range variants {
							if t2, ok := group(vt); !ok || !sameTree(t2, tree) {
								continue // the printer's parentheses would change the tree: skip rather than guess
							}
							cs := base
							cs.Mode = "parens"
							cs.Toks = vt
							cs.Layout = int(order % 4)
							c.Case(nontriv)
							if !do(cs) {
								return false
							}
						}
						// right-hand side of an assignment is a complete expression
						if vi < 3 {
							cs := base
							cs.Mode = "assign"
							cs.Wrap = "assign"
							cs.Layout = 1
							c.Case(nontriv)
							if !do(cs) {
								return false
							}
							cs.Wrap = "for"
							cs.Mode = "for"
							if e := c01Expect(cs); e.Kind != EUnspec {
								c.Case(nontriv)
								if !do(cs) {
									return false
								}
							}
						}
					}
				}
			}
			// decorations: one prefix or postfix operator on every operand (k <= 2)
			if k <= 2 {
				decos := []string{"", "-", "!", "++", "--"}
				sizes := make([]int, nop)
				for i := range sizes {
					sizes[i] = len(decos)
				}
				ok := product(sizes, func(di []int) bool {
					deco := make([]string, nop)
					any := false
					for i, d := range di {
						deco[i] = decos[d]
						any = any || d != 0
					}
					if !any {
						return true
					}
					for _, si := range []int{0, 2, 4} {
						for _, m := range []uint{0, 1<<uint(nop) - 1} {
							toks, vars := buildFlat(ops, sets[si].vals, m, deco)
							cs := c01Case{Mode: "deco", Toks: toks, Vars: vars, Ops: opsName, Wrap: "print", Layout: int(m & 1)}
							c.Case(c01Discriminating(cs))
							if !do(cs) {
								return false
							}
						}
						// the same variable in every operand position: ++/-- must not change what later operands read
						sameVar = true
						toks, vars := buildFlat(ops, sets[si].vals, 0, deco)
						sameVar = false
						cs := c01Case{Mode: "deco-same-variable", Toks: toks, Vars: vars, Ops: opsName, Wrap: "print", Layout: 1}
						c.Case(true)
						if !do(cs) {
							return false
						}
					}
					return true
				})
				if !ok {
					return false
				}
			}
			return true
		})
		if stop {
			return
		}
	}

	// (b) typed trees with index, property access, calls, prefix and postfix operators
	c01Trees(c, do)

	// (f) pairs of expressions in one template, numerals with leading zeros
	c01Pairs(c, do)

	// (e) boundary integers
	if c.Mine() {
		maxI, minI := int64(math.MaxInt64), int64(math.MinInt64)
		big := Tok{K: "lit", Src: "9223372036854775808"} // out of range: no value
		lit := func(i int64) Tok { return tLit(vInt(i)) }
		cases := [][]Tok{
			{lit(maxI)},
			{big},
			{tOp("-"), big},
			{lit(maxI), tOp("+"), lit(1)},
			{tOp("-"), lit(maxI), tOp("-"), lit(2)},
			{lit(maxI), tOp("*"), lit(2)},
			{lit(maxI), tOp("*"), lit(maxI)},
			{tID("m"), tOp("-"), lit(1)},
			{tID("m"), tOp("/"), tOp("-"), lit(1)},
			{tID("m"), tOp("%"), tOp("-"), lit(1)},
			{tID("m"), tOp("*"), tOp("-"), lit(1)},
			{tOp("-"), tID("m")},
			{tID("m"), tOp("--")},
			{lit(maxI), tOp("++")},
			{Tok{K: "lit", Src: "99999999999999999999"}, tOp("+"), lit(1)},
			{lit(1), tOp("+"), big},
		}
		for _, tk := range cases {
			for lay := 0; lay < 2; lay++ {
				cs := c01Case{Mode: "boundary", Toks: tk, Layout: lay, Vars: map[string]Val{"m": vInt(minI)}, Wrap: "print"}
				c.Case(true)
				if !do(cs) {
					return
				}
			}
		}
	}
}

// c01Pairs: every ordered pair of a small set of expressions whose values are easy to confuse (the two zeros,
// equal numbers of different type, numerals with leading zeros, numeric strings) printed by one template:
// what one expression evaluates to never depends on what was evaluated before it.
func c01Pairs(c *Ctx, do func(c01Case) bool) {
	if !c.Mine() {
		return
	}
	lz := func(src string, v int64) Tok { x := vInt(v); return Tok{K: "lit", Src: src, V: &x} }
	base := [][]Tok{
		{tLit(vInt(0))}, {tLit(vFloat(0))}, {tOp("-"), tLit(vFloat(0))}, {tID("z")}, {tOp("-"), tID("z")}, {tID("nz")},
		{tLit(vInt(1))}, {tLit(vFloat(1))}, {tLit(vStr("1"))}, {tLit(vBool(true))}, {tLit(vInt(10))}, {lz("010", 10)}, {lz("0100", 100)},
		{lz("08", 8)}, {lz("007", 7)}, {lz("00", 0)}, {tLit(vFloat(1.5))}, {tOp("-"), tLit(vFloat(1.5))}, {tLit(vFloat(10))}, {tLit(vStr("10"))},
		{tLit(vFloat(0.1)), tOp("+"), tLit(vFloat(0.2))}, {tLit(vFloat(0.5)), tOp("-"), tLit(vFloat(0.5))}, {tLit(vInt(2)), tOp("*"), lz("0100", 100), tOp("-"), lz("017", 17)},
		{tLit(vStr(""))}, {tLit(vBool(false))}, {tLit(vNil())}, {tID("i")}, {tID("i"), tOp("++")}, {tID("f"), tOp("--")}, {tID("f")},
		{tLit(vInt(1)), tOp("+"), tLit(vInt(1))}, {tLit(vStr("1")), tOp("+"), tLit(vStr("1"))}, {tLit(vInt(10)), tOp("-"), tLit(vInt(3))}, {tLit(vStr("10")), tOp("+"), tLit(vStr("3"))},
		{tLit(vStr("1.5"))}, {tLit(vFloat(1.5)), tOp("+"), tLit(vFloat(1.5))}, {tLit(vStr("1.5")), tOp("+"), tLit(vStr("1.5"))}, {tLit(vStr("true"))}, {tLit(vStr("nil"))}, {tLit(vStr("i"))},
		{tLit(vInt(1)), tOp("=="), tLit(vInt(1))}, {tLit(vFloat(3)), tOp("*"), tLit(vFloat(0))}, {tOp("-"), tLit(vFloat(3)), tOp("*"), tLit(vFloat(0))},
	}
	vars := map[string]Val{"z": vFloat(0), "nz": vFloat(math.Copysign(0, -1)), "i": vInt(10), "f": vFloat(2.5)}
	for _, a := range base {
		cs := c01Case{Mode: "single", Toks: a, Vars: vars, Wrap: "print", Layout: 1}
		c.Case(true)
		if !do(cs) {
			return
		}
		for _, b := range base {
			cs := c01Case{Mode: "pair", Toks: a, Toks2: b, Vars: vars, Wrap: "print", Layout: 1}
			c.Case(true)
			if !do(cs) {
				return
			}
		}
	}
}

// c01Trees: type-directed exhaustive trees up to a size bound.
func c01Trees(c *Ctx, do func(c01Case) bool) {
	vars := map[string]Val{
		"n": vInt(5), "g": vFloat(2.5), "s": vStr("ab"), "t": vBool(true),
		"a": vArr(vInt(5), vInt(3), vInt(2)), "o": vObj("k", vInt(4), "j", vInt(6), "n", vObj("k", vInt(2)), "Up", vInt(8)),
	}
	lit := func(v Val) *Expr { return &Expr{Op: "lit", V: v} }
	vr := func(n string) *Expr { return &Expr{Op: "var", Name: n} }
	leaves := map[string][]*Expr{
		VInt:   {lit(vInt(7)), vr("n"), lit(vInt(0))},
		VFloat: {lit(vFloat(1.5)), vr("g")},
		VStr:   {lit(vStr("a")), vr("s")},
		VBool:  {lit(vBool(false)), vr("t")},
		VArr:   {vr("a")},
		VObj:   {vr("o")},
	}
	types := []string{VInt, VFloat, VStr, VBool, VArr, VObj}
	maxSize := 2
	if c.Thorough() {
		maxSize = 3
	}
	// memo[type][size] = all expressions of that type with exactly `size` operator nodes
	memo := map[string][][]*Expr{}
	for _, t := range types {
		memo[t] = make([][]*Expr, maxSize+1)
		memo[t][0] = leaves[t]
	}
	bin := func(op string, l, r *Expr) *Expr { return &Expr{Op: op, Kids: []*Expr{l, r}} }
	un := func(op string, k *Expr) *Expr { return &Expr{Op: op, Kids: []*Expr{k}} }
	for size := 1; size <= maxSize; size++ {
		for _, t := range types {
			var out []*Expr
			// unary forms over size-1 operand
			for _, k := range memo[t][size-1] {
				switch t {
				case VInt, VFloat:
					out = append(out, un("neg", k), un("inc", k), un("dec", k))
				case VBool:
					out = append(out, un("not", k))
				}
			}
			if t == VInt {
				for _, k := range memo[VInt][size-1] {
					out = append(out, &Expr{Op: "call", Name: "abs", Kids: []*Expr{k}})
				}
				for _, k := range memo[VStr][size-1] {
					out = append(out, &Expr{Op: "call", Name: "len", Kids: []*Expr{k}})
				}
				for _, k := range memo[VArr][size-1] {
					out = append(out, &Expr{Op: "call", Name: "len", Kids: []*Expr{k}})
				}
				for _, k := range memo[VObj][size-1] {
					out = append(out, &Expr{Op: "dot", Name: "k", Kids: []*Expr{k}}, &Expr{Op: "dot", Name: "up", Kids: []*Expr{k}},
						&Expr{Op: "idx", Kids: []*Expr{k, lit(vStr("j"))}})
				}
			}
			if t == VObj {
				for _, k := range memo[VObj][size-1] {
					out = append(out, &Expr{Op: "dot", Name: "n", Kids: []*Expr{k}})
				}
			}
			// binary forms: sizes split l + r = size-1
			for ls := 0; ls <= size-1; ls++ {
				rs := size - 1 - ls
				switch t {
				case VInt:
					for _, op := range []string{"+", "-", "*", "/", "%"} {
						for _, l := range memo[VInt][ls] {
							for _, r := range memo[VInt][rs] {
								out = append(out, bin(op, l, r))
							}
						}
					}
					for _, l := range memo[VArr][ls] {
						for _, r := range memo[VInt][rs] {
							out = append(out, &Expr{Op: "idx", Kids: []*Expr{l, r}})
						}
					}
				case VFloat:
					for _, op := range []string{"+", "-", "*", "/"} {
						for _, l := range memo[VFloat][ls] {
							for _, r := range memo[VFloat][rs] {
								out = append(out, bin(op, l, r))
							}
						}
					}
				case VStr:
					for _, l := range memo[VStr][ls] {
						for _, r := range memo[VStr][rs] {
							out = append(out, bin("+", l, r))
						}
					}
				case VBool:
					for _, op := range []string{"==", "!=", "<", ">", "<=", ">="} {
						for _, l := range memo[VInt][ls] {
							for _, r := range memo[VInt][rs] {
								out = append(out, bin(op, l, r))
							}
						}
						if op == "==" || op == "<" {
							for _, l := range memo[VFloat][ls] {
								for _, r := range memo[VFloat][rs] {
									out = append(out, bin(op, l, r))
								}
							}
						}
					}
					for _, op := range []string{"==", "!="} {
						for _, l := range memo[VStr][ls] {
							for _, r := range memo[VStr][rs] {
								out = append(out, bin(op, l, r))
							}
						}
					}
				}
			}
			// ternary: condition of any scalar type, arms of type t; sizes c + a + b = size-1
			if t == VInt || t == VStr {
				for cs := 0; cs <= size-1; cs++ {
					for as := 0; as+cs <= size-1; as++ {
						bs := size - 1 - cs - as
						for _, ct := range []string{VBool, VInt} {
							for _, cnd := range memo[ct][cs] {
								for _, a := range memo[t][as] {
									for _, b := range memo[t][bs] {
										out = append(out, &Expr{Op: "?:", Kids: []*Expr{cnd, a, b}})
									}
								}
							}
						}
					}
				}
			}
			memo[t][size] = out
		}
	}
	// simple sharding: blocks of 64 trees
	for size := 1; size <= maxSize; size++ {
		for _, t := range []string{VInt, VFloat, VStr, VBool} {
			list := memo[t][size]
			for b := 0; b < len(list); b += 64 {
				if !c.Mine() {
					continue
				}
				end := b + 64
				if end > len(list) {
					end = len(list)
				}
				for _, e := range list[b:end] {
					toks := toToks(e, false)
					if t2, ok := group(toks); !ok || !sameTree(t2, e) {
						toks = toToks(e, true)
						if t3, ok := group(toks); !ok || !sameTree(t3, e) {
							c.Count("printer_skipped", 1)
							continue
						}
					}
					used := map[string]Val{}
					for _, tk := range toks {
						if tk.K == "id" {
							if v, ok := vars[tk.Src]; ok {
								used[tk.Src] = v
							}
						}
					}
					base := c01Case{Mode: "tree", Toks: toks, Vars: used, Wrap: "print"}
					nontriv := c01Discriminating(base) || strings.Contains(e.String(), ".") || strings.Contains(e.String(), "[")
					for _, lay := range []int{0, 1} {
						cs := base
						cs.Layout = lay
						c.Case(nontriv)
						c.Sample(map[string]any{"src": c01Source(cs), "vars": cs.Vars})
						if !do(cs) {
							return
						}
					}
					full := base
					full.Mode = "tree-parens"
					full.Toks = toToks(e, true)
					if t4, ok := group(full.Toks); ok && sameTree(t4, e) {
						full.Layout = 3
						c.Case(nontriv)
						if !do(full) {
							return
						}
					}
				}
			}
		}
	}
}

func init() {
	p := &Property{
		ID:    "C01",
		Level: "exploration",
		Rule: "bounded-exhaustive: every flat operand/operator sequence with <=k operators from the 11 binary operators and the ternary, typed operand vectors (ints, floats, strings, zero at every right-hand position, one mixed-type operand per position), every literal/variable rendering, 4 whitespace layouts, every redundant-parenthesis layout, as printed expression / assignment value / @for condition; one prefix or postfix operator on every operand (k<=2); all type-directed trees with index, property access, calls up to a node bound; boundary integers. " +
			"The reference groups the token list by precedence climbing over the table of the statement. A case is non-trivial when at least one other grouping of the same tokens (right-associative, flat precedence, swapped adjacent levels) evaluates to a different outcome in the reference, or it contains member access / index",
		Bounds: func(tier string) map[string]any {
			if tier == "thorough" {
				return map[string]any{"operators_per_sequence": 4, "tree_nodes": 3, "layouts": 4}
			}
			return map[string]any{"operators_per_sequence": 3, "tree_nodes": 2, "layouts": 4}
		},
		Assume: []string{
			"string operands contain no HTML-special characters (escaping is C10)",
			"unspecified by the statement and therefore only checked for no-panic/no-hang: ! on non-booleans, % on floats, ordering of strings, operators on bool/nil/array/object, float division by zero, array index out of range",
			"postfix ++/-- on a float with a fractional part: admissible set {IEEE result, decimally exact result} (the repository suite pins 4.4-- to 3.4)",
		},
		Run: c01Run,
	}
	registerTyped(p, c01Check)
}
