package main

import (
	"fmt"
	"reflect"
	"strings"

	textwire "github.com/textwire/textwire/v2"
	rt "github.com/textwire/textwire/v2/zzverifrt"
)

// C16 — a render depends only on its arguments, not on earlier calls.
// Explicit-state search over the real entry points (DESIGN.md section 3, explorer 2).

type c16Case struct {
	Cfg     int   `json:"cfg"`     // bit 0: debug mode, bit 1: custom error page configured, bit 2 (cfg 4, 5): a custom error page that fails itself
	History []int `json:"history"` // operation indices; the last one is the operation under test
}

type c16Op struct {
	name string
	run  func(tpl *textwire.Template, t Tree) (result string, dataChanged bool)
}

// two struct types of one name and different shapes (declared in different functions), one per data map
func c16CardA() any {
	type card struct {
		Title string
		N     int
	}
	return card{Title: "tA", N: 1}
}

func c16CardB() any {
	type card struct {
		N     int
		Extra bool
		Title string
	}
	return card{N: 2, Extra: true, Title: "tB"}
}

func c16Data(i int) map[string]any {
	if i == 0 {
		return map[string]any{"name": "Ann", "items": []any{1, 2}, "flag": true, "card": c16CardA()}
	}
	return map[string]any{"name": "Bob<b>", "items": []any{}, "flag": false, "extra": map[string]any{"k": []int{1}}, "card": c16CardB()}
}

func c16Tree(cfg int) Tree {
	t := Tree{Dir: "t", Ext: ".tw", Debug: cfg&1 != 0, Files: map[string]string{
		"lay.tw":      "<html>@reserve(\"title\")|@reserve(\"body\")</html>",
		"card.tw":     "<card {{ n }}>@slot</card>",
		"ok.tw":       "@use(\"lay\")@insert(\"title\", name)@insert(\"body\")@each(i in items)@component(\"card\", {n: i})@slot{{ loop.iter }}@end@end@end@if(flag)F@end{{ {b: 1, a: 2}.a }}@end",
		"fail.tw":     "start {{ name }}\n@each(i in items){{ i }}@end\n{{ name.nope() }}",
		"fail2.tw":    "@use(\"lay\")@insert(\"body\"){{ 1 / 0 }}@end",
		"plain.tw":    "plain {{ name.upper() }} {{ items.len() }} {{ card.title }}{{ card.n }}",
		"err.tw":      "custom error page",
		"failloop.tw": "<ol>@each(i in [1, 2, 3])<li>{{ i }}</li>@if(loop.iter == 2){{ i.nope() }}@end@end</ol>@for(j = 0; j < 2; j++)[{{ j }}]@end",
		"loops.tw":    "<ul>@each(i in items)<li>{{ i }}</li>@end</ul>@for(j = 0; j < 2; j++)[{{ j }}]@end",
		// pages that assign top-level variables (rendered without data: nothing may survive the call)
		"assign.tw":  "{{ x = 1 }}{{ x }}{{ n = nil }}",
		"assign2.tw": "{{ x = \"s\" }}{{ x }}|{{ y = [1] }}{{ y.len() }}",
		// a page that walks through as much of the interpreter as possible (every built-in, loops, dump, objects …)
		"sink.tw": `{{-- sink --}}\{{ esc }} \@if(x)
@for(i = 0; i < 3; i++){{ i }}@continueIf(i == 1)@for(j = 0; j < 2; j = j + 1)[{{ i * 2 + j }}]@end@end
@each(v in items){{ loop.index }}{{ loop.first }}{{ loop.last }}@breakIf(loop.iter > 5)@else none@end
{{ s = "  Hello, wörld  " }}{{ s.trim().upper() }}{{ s.trimLeft().lower() }}{{ s.trimRight() }}{{ s.len() }}{{ s.trim().split(", ").join("+") }}
{{ "abc".capitalize() }}{{ "abc".reverse() }}{{ "abc".contains("b") }}{{ "abcdef".truncate(3) }}{{ "12".decimal() }}{{ "abc".at(1) }}{{ "abc".first() }}{{ "abc".last() }}{{ "ab".repeat(2) }}{{ "<b>".raw() }}
{{ a = [3, 1, 2] }}{{ a.len() }}{{ a.reverse() }}{{ a.slice(1) }}{{ a.contains(2) }}{{ a.append(4).prepend(0) }}{{ a.join("-") }}{{ a.shuffle().len() }}{{ a.rand() > 0 }}
{{ 5.float() }}{{ (-5).abs() }}{{ 5.str() + "x" }}{{ 123.len() }}{{ 5.decimal(",", 1) }}{{ 2.5.int() }}{{ 2.5.str() }}{{ (-2.5).abs() }}{{ 2.4.ceil() }}{{ 2.6.floor() }}{{ 2.5.round() }}
{{ true.binary() }}{{ flag.then("y", "n") }}{{ !flag ? 1 : 2 }}{{ {b: 1, a: [1, {c: nil}]}.a[1] }}{{ 7 % 3 }}{{ 1.5 * 2.0 }}{{ 3-- }}{{ 2.5++ }}{{ {"R&D <x>": 1, "k": 2}["k"] }}{{ {"a&b": "v"} }}
@dump(name, items, {k: 1})@dump({a: {b: {c: {d: {e: {f: {g: [1, {h: [2, {i: nil}]}]}}}}}}})@if(flag)A@elseif(name == "Bob<b>")B@else C@end
` + c16Chains(),
	}}
	if cfg&2 != 0 {
		t.ErrorPage = "err"
	}
	if cfg&4 != 0 {
		t.ErrorPage = "failloop" // a custom error page that fails itself
	}
	return t
}

// c16Chains: @if chains with 0..8 @elseif branches and an @else, first condition false (AST slices of every
// length / spare capacity are walked by the renders).
func c16Chains() string {
	var sb strings.Builder
	for n := 0; n <= 8; n++ {
		sb.WriteString("@if(false)a")
		for i := 0; i < n; i++ {
			sb.WriteString(fmt.Sprintf("@elseif(1 > %d)e%d", i+2, i))
		}
		sb.WriteString(fmt.Sprintf("@else z%d@end", n))
		sb.WriteString(fmt.Sprintf("{{ [%s].len() }}", strings.Repeat("1, ", n)+"0"))
		sb.WriteString(fmt.Sprintf("{{ {%s}.k0 }}", func() string {
			var ps []string
			for i := 0; i <= n; i++ {
				ps = append(ps, fmt.Sprintf("k%d: %d", i, i))
			}
			return strings.Join(ps, ", ")
		}()))
	}
	return sb.String()
}

func outcomeKey(o Outcome) string {
	return fmt.Sprintf("%s|%s|%s|%d|%s", o.Kind, o.Out, o.Msg, o.Line, o.Path)
}

func c16Ops() []c16Op {
	var ops []c16Op
	for _, name := range []string{"ok", "fail", "fail2", "nope", "lay", "plain", "sink", "failloop", "loops"} {
		for d := 0; d < 2; d++ {
			name, d := name, d
			ops = append(ops, c16Op{fmt.Sprintf("String(%s,d%d)", name, d), func(tpl *textwire.Template, t Tree) (string, bool) {
				data := c16Data(d)
				o := render(tpl, name, data)
				return outcomeKey(o), !reflect.DeepEqual(data, c16Data(d))
			}})
			if name == "plain" || name == "lay" || name == "sink" || name == "loops" {
				continue
			}
			ops = append(ops, c16Op{fmt.Sprintf("Response(%s,d%d)", name, d), func(tpl *textwire.Template, t Tree) (string, bool) {
				data := c16Data(d)
				o, body := respond(tpl, name, data)
				return outcomeKey(o) + "|body:" + body, !reflect.DeepEqual(data, c16Data(d))
			}})
		}
	}
	for _, name := range []string{"assign", "assign2"} {
		for d := 0; d < 2; d++ {
			name, d := name, d
			ops = append(ops, c16Op{fmt.Sprintf("String(%s,%s)", name, []string{"nil", "empty"}[d]), func(tpl *textwire.Template, t Tree) (string, bool) {
				var data map[string]any
				if d == 1 {
					data = map[string]any{}
				}
				o := render(tpl, name, data)
				return outcomeKey(o), len(data) != 0
			}})
		}
	}
	ops = append(ops,
		c16Op{"EvaluateString(assign,nil)", func(tpl *textwire.Template, t Tree) (string, bool) {
			o := guard(func() Outcome {
				out, err := textwire.EvaluateString("{{ x = 2.5 }}{{ x }}{{ q = true }}", nil)
				if err != nil {
					return parseErr(err)
				}
				return Outcome{Kind: KOut, Out: out}
			})
			return outcomeKey(o), false
		}},
		c16Op{"EvaluateString(ok)", func(tpl *textwire.Template, t Tree) (string, bool) {
			data := c16Data(0)
			o := guard(func() Outcome {
				out, err := textwire.EvaluateString("s {{ name }} @each(i in items){{ i }}@end", data)
				if err != nil {
					return parseErr(err)
				}
				return Outcome{Kind: KOut, Out: out}
			})
			return outcomeKey(o), !reflect.DeepEqual(data, c16Data(0))
		}},
		c16Op{"EvaluateString(fail)", func(tpl *textwire.Template, t Tree) (string, bool) {
			o := guard(func() Outcome {
				out, err := textwire.EvaluateString("s\n{{ undefinedName }}", nil)
				if err != nil {
					return parseErr(err)
				}
				return Outcome{Kind: KOut, Out: out}
			})
			return outcomeKey(o), false
		}},
		c16Op{"EvaluateFile(plain)", func(tpl *textwire.Template, t Tree) (string, bool) {
			data := c16Data(1)
			o := guard(func() Outcome {
				out, err := textwire.EvaluateFile(t.abs("plain.tw"), data)
				if err != nil {
					return parseErr(err)
				}
				return Outcome{Kind: KOut, Out: out}
			})
			return outcomeKey(o), !reflect.DeepEqual(data, c16Data(1))
		}},
		c16Op{"EvaluateFile(missing)", func(tpl *textwire.Template, t Tree) (string, bool) {
			o := guard(func() Outcome {
				out, err := textwire.EvaluateFile(t.abs("missing.tw"), nil)
				if err != nil {
					return parseErr(err)
				}
				return Outcome{Kind: KOut, Out: out}
			})
			return outcomeKey(o), false
		}},
	)
	return ops
}

type c16World struct {
	cfg      int
	tree     Tree
	ops      []c16Op
	baseline []string          // result of each operation issued first in a fresh state
	baseVec  map[string]uint64 // restricted state vector right after loading
}

func newC16World(cfg int) (*c16World, string) {
	w := &c16World{cfg: cfg, tree: c16Tree(cfg), ops: c16Ops()}
	w.tree.write()
	for i := range w.ops {
		tpl, lo := w.fresh()
		if lo.Kind != KOut {
			return nil, "the fixed tree does not load: " + lo.String()
		}
		if i == 0 {
			_, w.baseVec = stateVector(tpl, ".usesTemplates")
		}
		r, _ := w.ops[i].run(tpl, w.tree)
		w.baseline = append(w.baseline, r)
	}
	return w, ""
}

func (w *c16World) fresh() (*textwire.Template, Outcome) {
	rt.ResetAll()
	return w.tree.load()
}

// replay runs a history from a fresh state; returns the per-step results, whether a step
// modified its data, the full state key and the restricted vector at the end.
func (w *c16World) replay(hist []int) (results []string, dataChanged []bool, key uint64, restricted map[string]uint64, err string) {
	tpl, lo := w.fresh()
	if lo.Kind != KOut {
		return nil, nil, 0, nil, "load failed: " + lo.String()
	}
	for _, op := range hist {
		r, dc := w.ops[op].run(tpl, w.tree)
		results = append(results, r)
		dataChanged = append(dataChanged, dc)
	}
	// one hashing pass: the full key, and the restricted vector without the mode flag
	k, parts := stateVector(tpl)
	restricted = map[string]uint64{}
	for n, h := range parts {
		if !strings.HasSuffix(n, ".usesTemplates") {
			restricted[n] = h
		}
	}
	return results, dataChanged, k, restricted, ""
}

// c16Verdict checks the last operation of a history.
func (w *c16World) verdict(hist []int) (ok bool, sig, expected, observed string, key uint64) {
	results, dataChanged, key, restricted, err := w.replay(hist)
	if err != "" {
		return false, "load-failed", "the fixed tree loads", err, 0
	}
	last := len(hist) - 1
	op := hist[last]
	names := make([]string, len(hist))
	for i, h := range hist {
		names[i] = w.ops[h].name
	}
	histS := strings.Join(names, " ; ")
	if strings.HasPrefix(results[last], KPanic) || strings.HasPrefix(results[last], KHang) {
		return false, "crash/" + w.ops[op].name, "no crash after " + histS, clip(results[last], 300), key
	}
	if results[last] != w.baseline[op] {
		prev := "fresh"
		if last > 0 {
			prev = w.ops[hist[last-1]].name
		}
		return false, "history-dependent/" + w.ops[op].name + "/after:" + prev, fmt.Sprintf("%s as when issued first in a fresh state: %q (history: %s, cfg=%d)", w.ops[op].name, clip(w.baseline[op], 300), histS, w.cfg), clip(results[last], 300), key
	}
	if dataChanged[last] {
		return false, "caller-data-modified/" + w.ops[op].name, "the caller's data is unchanged", "data map differs after " + histS, key
	}
	if d := diffParts(w.baseVec, restricted); len(d) > 0 {
		return false, "state-modified/" + strings.Join(d, ","), "loaded templates, configuration and registry are unchanged by rendering (history: " + histS + ")", "changed: " + strings.Join(d, ", "), key
	}
	return true, "", "result equals the fresh-state result; state unchanged", "ok", key
}

func c16Check(cs c16Case) (bool, string, string, string) {
	enterScratch()
	w, err := newC16World(cs.Cfg)
	if err != "" {
		return false, "load-failed", "the fixed tree loads", err
	}
	ok, sig, e, o, _ := w.verdict(cs.History)
	return ok, sig, e, o
}

func c16Run(c *Ctx) {
	enterScratch()
	depth, brute := 4, 2
	if c.Thorough() {
		depth, brute = 8, 3
	}
	worlds := map[int]*c16World{}
	world := func(cfg int) *c16World {
		if w, ok := worlds[cfg]; ok {
			return w
		}
		w, err := newC16World(cfg)
		if err != "" {
			c.Report("load-failed", 0, c16Case{Cfg: cfg}, "the fixed tree loads", err, "")
			w = nil
		}
		worlds[cfg] = w
		return w
	}
	for cfg := 0; cfg < 6; cfg++ {
		if !c.Mine() {
			continue
		}
		w := world(cfg)
		if w == nil {
			continue
		}
		// explicit-state BFS: a state is represented by the shortest history reaching it
		_, _, initKey, _, _ := w.replay(nil)
		seen := map[uint64][]int{initKey: {}}
		frontier := [][]int{{}}
		maxDepthReached := 0
		for d := 0; d < depth && len(frontier) > 0; d++ {
			var next [][]int
			for _, hist := range frontier {
				for op := range w.ops {
					if c.Expired() {
						return
					}
					h2 := append(append([]int{}, hist...), op)
					cs := c16Case{Cfg: cfg, History: h2}
					c.Trace(cs)
					ok, sig, exp, obs, key := w.verdict(h2)
					c.Evals(1)
					c.Count("transitions", 1)
					c.Case(len(h2) > 1)
					c.Sample(map[string]any{"cfg": cfg, "history": histNames(w, h2), "result": clip(obs, 100)})
					if !ok {
						c.Report(sig, int64(len(h2))*1000+int64(op), cs, exp, obs, "")
					}
					if _, dup := seen[key]; !dup {
						seen[key] = h2
						next = append(next, h2)
						maxDepthReached = len(h2)
					}
				}
			}
			frontier = next
		}
		c.Count("states", int64(len(seen)))
		c.Count(fmt.Sprintf("cfg%d_states", cfg), int64(len(seen)))
		c.Count(fmt.Sprintf("cfg%d_deepest_new_state", cfg), int64(maxDepthReached))
		if len(frontier) == 0 {
			c.Count("configs_with_fixpoint", 1)
		} else {
			c.Note(fmt.Sprintf("cfg %d: the frontier did not close within depth %d", cfg, depth))
		}
	}
	// brute force: every history up to a small length, without deduplication (blocks: cfg x first operation)
	nops := len(c16Ops())
	for cfg := 0; cfg < 6; cfg++ {
		for first := 0; first < nops; first++ {
			if !c.Mine() {
				continue
			}
			w := world(cfg)
			if w == nil {
				continue
			}
			stop := false
			var rec func(hist []int)
			rec = func(hist []int) {
				if stop {
					return
				}
				if len(hist) >= 2 {
					if c.Expired() {
						stop = true
						return
					}
					cs := c16Case{Cfg: cfg, History: append([]int{}, hist...)}
					c.Trace(cs)
					ok, sig, exp, obs, _ := w.verdict(cs.History)
					c.Evals(1)
					c.Count("histories_without_dedup", 1)
					c.Case(true)
					if !ok {
						c.Report(sig, int64(len(hist))*1000+int64(hist[len(hist)-1]), cs, exp, obs, "")
					}
				}
				if len(hist) == brute {
					return
				}
				for op := range w.ops {
					rec(append(hist, op))
				}
			}
			rec([]int{first})
			if stop {
				return
			}
		}
	}
}

func histNames(w *c16World, h []int) []string {
	out := make([]string, len(h))
	for i, x := range h {
		out[i] = w.ops[x].name
	}
	return out
}

func init() {
	p := &Property{
		ID:    "C16",
		Level: "model_checking",
		Rule:  "explicit-state breadth-first search over the real entry points: from the state after NewTemplate on a fixed tree (layout, component in a loop with slots, failing pages, custom error page), every operation of {String, Response} x {ok page, two failing pages, unknown name, layout name, plain page} x 2 data maps, EvaluateString ok/failing, EvaluateFile ok/missing is applied to every reachable state; a state is the deep hash of every package-level variable of the module, the loaded program table (state vector extracted by the instrumenter); states are deduplicated and the search runs to a fixpoint; repeated for {debug on/off} x {no / valid / itself failing custom error page}. On every transition the operation's result (output or message+line+path, and the Response body) must equal the result of the same operation issued first in a fresh state, and the restricted vector (ASTs, configuration, registry) and the caller's data must be unchanged. Additionally every history up to a small length is run without deduplication",
		Bounds: func(tier string) map[string]any {
			if tier == "thorough" {
				return map[string]any{"operations": len(c16Ops()), "bfs_depth_bound": 8, "histories_without_dedup_len": 3, "load_configurations": 6}
			}
			return map[string]any{"operations": len(c16Ops()), "bfs_depth_bound": 4, "histories_without_dedup_len": 2, "load_configurations": 6}
		},
		Assume: []string{
			"canonicalisation argument: the interpreter has no mutable state other than package-level variables and the Template's program table (no goroutines, no open files, no caches elsewhere), all of which are in the hashed vector, so equal vectors have equal futures",
			"every explored trace is an execution of the implementation (replay from a fresh state + one operation); there is no separate model to validate",
		},
		Run: c16Run,
		PostMerge: func(tier string, cov map[string]any, rs []WorkerResult) {
			var states, trans int64
			for _, r := range rs {
				states += r.Counters["states"]
				trans += r.Counters["transitions"] + r.Counters["histories_without_dedup"]
			}
			cov["states"] = states
			cov["transitions"] = trans
			cov["traces_validated_against_impl"] = trans
			cov["state_vars"] = stateVarNames()
			fix := int64(0)
			for _, r := range rs {
				fix += r.Counters["configs_with_fixpoint"]
			}
			cov["fixpoint_reached_in_configs"] = fix
		},
	}
	registerTyped(p, c16Check)
}
