module verifh

go 1.22.0

require github.com/textwire/textwire/v2 v2.0.0

replace github.com/textwire/textwire/v2 => /repo
