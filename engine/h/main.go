package main

import (
	"bufio"
	"bytes"
	"crypto/sha1"
	"encoding/hex"
	"encoding/json"
	"fmt"
	"os"
	"os/exec"
	"path/filepath"
	"runtime"
	"runtime/debug"
	"sort"
	"strconv"
	"strings"
	"sync"
	"time"
)

func envOr(k, d string) string {
	if v := os.Getenv(k); v != "" {
		return v
	}
	return d
}

var verifDir = envOr("VERIF_DIR", "/verif")

func main() {
	if len(os.Args) < 2 {
		usage()
	}
	loadSites()
	switch os.Args[1] {
	case "run":
		if len(os.Args) != 4 {
			usage()
		}
		os.Exit(runParent(os.Args[2], os.Args[3]))
	case "worker":
		// worker <prop> <tier> <shard> <nshards> <outfile> [tracefile]
		shard, _ := strconv.Atoi(os.Args[4])
		n, _ := strconv.Atoi(os.Args[5])
		trace := ""
		if len(os.Args) > 7 {
			trace = os.Args[7]
		}
		runWorker(os.Args[2], os.Args[3], shard, n, os.Args[6], trace)
	case "replay":
		os.Exit(runReplay(os.Args[2]))
	case "racefree":
		cfg, _ := strconv.Atoi(os.Args[2])
		c15RaceFreeMain(cfg)
	case "list":
		var ids []string
		for id := range registry {
			ids = append(ids, id)
		}
		sort.Strings(ids)
		fmt.Println(strings.Join(ids, " "))
	default:
		usage()
	}
}

func usage() {
	fmt.Fprintln(os.Stderr, "usage: verifh run <Cnn> <quick|thorough> | replay <file> | list")
	os.Exit(2)
}

func loadSites() {
	p := os.Getenv("VERIF_INSTR_JSON")
	if p == "" {
		return
	}
	b, err := os.ReadFile(p)
	if err != nil {
		return
	}
	var meta struct {
		Sites []struct {
			ID   int    `json:"id"`
			Kind string `json:"kind"`
			Pos  string `json:"pos"`
			Func string `json:"func"`
		} `json:"sites"`
	}
	if json.Unmarshal(b, &meta) == nil {
		for _, s := range meta.Sites {
			siteTable = append(siteTable, struct {
				ID   int    `json:"id"`
				Kind string `json:"kind"`
				Pos  string `json:"pos"`
				Func string `json:"func"`
			}(s))
		}
	}
}

// ---------------------------------------------------------------------------------------------
// worker

func runWorker(prop, tier string, shard, n int, outfile, tracefile string) {
	p := registry[prop]
	if p == nil {
		fmt.Fprintln(os.Stderr, "unknown property", prop)
		os.Exit(2)
	}
	debug.SetMaxStack(256 << 20)
	if os.Getenv("VERIF_GOMAXPROCS") == "" {
		runtime.GOMAXPROCS(2)
	}
	seed, _ := strconv.ParseInt(envOr("VERIF_SEED", "0"), 10, 64)
	if seed < 0 {
		seed = -seed
	}
	budget := defaultBudget(tier)
	if p.Budget != nil {
		budget = p.Budget(tier)
	}
	if v := os.Getenv("VERIF_BUDGET_S"); v != "" {
		if s, err := strconv.Atoi(v); err == nil {
			budget = time.Duration(s) * time.Second
		}
	}
	c := &Ctx{Prop: prop, Tier: tier, Shard: shard, NShards: n, Seed: seed,
		deadline: time.Now().Add(budget), vios: map[string]*Violation{}}
	c.res = WorkerResult{Shard: shard, Exhaustive: true, Counters: map[string]int64{}, OutcomeHash: map[string]int64{}}
	if tracefile != "" {
		f, err := os.Create(tracefile)
		if err == nil {
			c.trace = f
			defer f.Close()
		}
	}
	t0 := time.Now()
	p.Run(c)
	res := c.finish()
	res.WallS = time.Since(t0).Seconds()
	b, _ := json.Marshal(res)
	if err := os.WriteFile(outfile, b, 0o644); err != nil {
		fmt.Fprintln(os.Stderr, "worker: cannot write result:", err)
		os.Exit(3)
	}
}

// ---------------------------------------------------------------------------------------------
// replay: the "plain unit test" form of a counterexample

func runReplay(path string) int {
	b, err := os.ReadFile(path)
	if err != nil {
		fmt.Fprintln(os.Stderr, err)
		return 2
	}
	var v Violation
	if err := json.Unmarshal(b, &v); err != nil {
		fmt.Fprintln(os.Stderr, "bad replay file:", err)
		return 2
	}
	p := registry[v.Prop]
	if p == nil || p.Replay == nil {
		fmt.Fprintln(os.Stderr, "no replay for property", v.Prop)
		return 2
	}
	if v.NeedsHistory {
		// the counterexample is "shard Shard/NShards of the tier, up to the first case with this signature"
		os.Setenv("VERIF_STOP_AT_SIG", v.Sig)
		os.Setenv("VERIF_STOP_EXIT1", "1")
		tmp, _ := os.CreateTemp("", "verif-hist-*.json")
		tmp.Close()
		defer os.Remove(tmp.Name())
		runWorker(v.Prop, v.Tier, v.Shard, v.NShards, tmp.Name(), "") // exits with REPRODUCED when the signature is met
		fmt.Println("NOT-REPRODUCED (the shard ran to its end without this signature)")
		return 0
	}
	violated, sig, exp, obs := p.Replay(v.Case)
	fmt.Printf("property=%s\ncase=%s\nexpected=%s\nobserved=%s\nsignature=%s\n", v.Prop, string(v.Case), exp, obs, sig)
	if violated {
		fmt.Println("REPRODUCED")
		return 1
	}
	fmt.Println("NOT-REPRODUCED (property holds on this case)")
	return 0
}

// ---------------------------------------------------------------------------------------------
// parent: spawn workers, merge, confirm, known findings, evidence

type knownFindings struct {
	Findings []struct {
		Property  string          `json:"property"`
		Signature string          `json:"signature"`
		What      string          `json:"what"`
		Input     json.RawMessage `json:"input,omitempty"`
	} `json:"findings"`
	Fixed []string `json:"fixed"`
}

func loadKnown() knownFindings {
	var k knownFindings
	b, err := os.ReadFile(filepath.Join(verifDir, "known-findings.json"))
	if err == nil {
		if err := json.Unmarshal(b, &k); err != nil {
			fmt.Fprintln(os.Stderr, "known-findings.json is not valid JSON:", err)
			os.Exit(3)
		}
	}
	return k
}

func runParent(prop, tier string) int {
	p := registry[prop]
	if p == nil {
		fmt.Fprintln(os.Stderr, "unknown property", prop)
		return 2
	}
	if tier != "quick" && tier != "thorough" {
		fmt.Fprintln(os.Stderr, "tier must be quick or thorough")
		return 2
	}
	t0 := time.Now()
	self, _ := os.Executable()
	work, err := os.MkdirTemp(envOr("VERIF_WORK", "/var/tmp"), "verif-"+prop+"-")
	if err != nil {
		fmt.Fprintln(os.Stderr, err)
		return 3
	}
	defer os.RemoveAll(work)
	shardBase := work
	if shm := os.Getenv("VERIF_SHM"); shm != "" {
		shardBase = filepath.Join(shm, filepath.Base(work))
		os.MkdirAll(shardBase, 0o755)
		defer os.RemoveAll(shardBase)
	}
	n := runtime.NumCPU()
	if v := os.Getenv("VERIF_WORKERS"); v != "" {
		n, _ = strconv.Atoi(v)
	}
	if p.Workers > 0 && p.Workers < n {
		n = p.Workers
	}
	if n < 1 {
		n = 1
	}
	results := make([]WorkerResult, n)
	okv := make([]bool, n)
	stderrs := make([]string, n)
	var wg sync.WaitGroup
	for i := 0; i < n; i++ {
		wg.Add(1)
		go func(i int) {
			defer wg.Done()
			out := filepath.Join(work, fmt.Sprintf("w%d.json", i))
			cmd := exec.Command(self, "worker", prop, tier, strconv.Itoa(i), strconv.Itoa(n), out)
			var eb bytes.Buffer
			cmd.Stderr = &eb
			cmd.Stdout = &eb
			cmd.Env = append(os.Environ(), "VERIF_SHARD_DIR="+filepath.Join(shardBase, fmt.Sprintf("d%d", i)))
			err := cmd.Run()
			stderrs[i] = eb.String()
			if err != nil {
				return
			}
			b, err := os.ReadFile(out)
			if err != nil {
				return
			}
			if json.Unmarshal(b, &results[i]) == nil {
				okv[i] = true
			}
		}(i)
	}
	wg.Wait()

	var fatal []Violation
	harnessBroken := false
	for i := 0; i < n; i++ {
		if okv[i] {
			continue
		}
		fmt.Fprintf(os.Stderr, "worker %d died; stderr tail:\n%s\n", i, tail(stderrs[i], 1500))
		// the worker died: re-run its shard with case tracing to find the case it died in
		tr := filepath.Join(work, fmt.Sprintf("t%d.trace", i))
		out := filepath.Join(work, fmt.Sprintf("w%d.json", i))
		cmd := exec.Command(self, "worker", prop, tier, strconv.Itoa(i), strconv.Itoa(n), out, tr)
		var eb bytes.Buffer
		cmd.Stderr = &eb
		cmd.Env = append(os.Environ(), "VERIF_SHARD_DIR="+filepath.Join(shardBase, fmt.Sprintf("d%d", i)))
		err := cmd.Run()
		if err == nil {
			// did not die again: not reproducible, treat as harness trouble, not as an alarm
			fmt.Fprintf(os.Stderr, "worker %d died once and survived the re-run; first stderr:\n%s\n", i, tail(stderrs[i], 2000))
			harnessBroken = true
			continue
		}
		last := lastLine(tr)
		if last == "" {
			fmt.Fprintf(os.Stderr, "worker %d died before its first case:\n%s\n", i, tail(eb.String(), 3000))
			harnessBroken = true
			continue
		}
		first := firstFatalLine(eb.String())
		fatal = append(fatal, Violation{Prop: prop, Sig: "fatal/" + first, Order: 0, Case: json.RawMessage(last),
			Expected: "the process survives every input", Observed: "process died: " + first})
		results[i].Exhaustive = false
		results[i].Notes = append(results[i].Notes, fmt.Sprintf("shard %d died (%s); the rest of the shard was not explored", i, first))
	}
	if harnessBroken {
		fmt.Fprintln(os.Stderr, "harness failure (no verdict)")
		return 3
	}

	// merge
	cov := map[string]any{}
	var evals, cases, nontriv, vioCount int64
	exhaustive := true
	counters := map[string]int64{}
	classes := map[string]int64{}
	var samples []any
	var notes []string
	best := map[string]Violation{}
	for _, r := range results {
		evals += r.Evals
		cases += r.Cases
		nontriv += r.NonTrivial
		vioCount += r.VioCount
		exhaustive = exhaustive && r.Exhaustive
		for k, v := range r.Counters {
			counters[k] += v
		}
		for k, v := range r.OutcomeHash {
			classes[k] += v
		}
		if len(samples) < 8 {
			for _, s := range r.Samples {
				if len(samples) < 8 {
					samples = append(samples, s)
				}
			}
		}
		for _, nn := range r.Notes {
			dup := false
			for _, x := range notes {
				dup = dup || x == nn
			}
			if !dup {
				notes = append(notes, nn)
			}
		}
		for _, v := range r.Violations {
			if old, ok := best[v.Sig]; !ok || v.Order < old.Order {
				best[v.Sig] = v
			}
		}
	}
	for _, v := range fatal {
		best[v.Sig] = v
	}

	if dd := os.Getenv("VERIF_DUMP"); dd != "" {
		var all []Violation
		for _, v := range best {
			all = append(all, v)
		}
		sort.Slice(all, func(i, j int) bool { return all[i].Sig < all[j].Sig })
		db, _ := json.MarshalIndent(all, "", " ")
		os.WriteFile(dd, db, 0o644)
	}

	// confirm each distinct signature in fresh processes; match known findings
	known := loadKnown()
	sigs := make([]string, 0, len(best))
	for s := range best {
		sigs = append(sigs, s)
	}
	sort.Slice(sigs, func(i, j int) bool {
		if best[sigs[i]].Order != best[sigs[j]].Order {
			return best[sigs[i]].Order < best[sigs[j]].Order
		}
		return sigs[i] < sigs[j]
	})
	var lines []string
	unknown, knownHit, unreproduced := 0, 0, 0
	confirmBudget := 40
	for _, s := range sigs {
		v := best[s]
		isKnown := false
		what := ""
		for _, k := range known.Findings {
			if k.Property == prop && k.Signature == s {
				isKnown, what = true, k.What
			}
		}
		if !isKnown && unknown >= 5 {
			continue // a run stops reporting after 5 distinct unknown signatures
		}
		if confirmBudget <= 0 {
			continue
		}
		confirmBudget--
		rp := filepath.Join(work, "confirm.json")
		b, _ := json.MarshalIndent(v, "", " ")
		os.WriteFile(rp, b, 0o644)
		repro := 0
		const tries = 5
		for k := 0; k < tries; k++ {
			cmd := exec.Command(self, "replay", rp)
			cmd.Env = append(os.Environ(), "VERIF_SHARD_DIR="+filepath.Join(shardBase, "confirm"))
			err := cmd.Run()
			if err != nil { // exit 1 = reproduced; a crash also counts for fatal signatures
				repro++
			}
		}
		if repro == 0 && v.NShards > 0 && !strings.HasPrefix(s, "fatal/") {
			// not reproducible in isolation: does it come back when the shard that met it is run again up to it?
			// (then the earlier cases leave state behind that changes what this one does: history dependence)
			hist := 0
			const histTries = 3
			for k := 0; k < histTries; k++ {
				cmd := exec.Command(self, "worker", prop, v.Tier, strconv.Itoa(v.Shard), strconv.Itoa(v.NShards), filepath.Join(work, "hist.json"))
				cmd.Env = append(os.Environ(), "VERIF_STOP_AT_SIG="+s, "VERIF_SHARD_DIR="+filepath.Join(shardBase, fmt.Sprintf("d%d", v.Shard)))
				if err := cmd.Run(); err != nil {
					if ee, ok := err.(*exec.ExitError); ok && ee.ExitCode() == exitHistoryReproduced {
						hist++
					}
				}
			}
			if hist >= histTries-1 { // all runs, or all but one (state kept in a sync.Pool comes and goes with the collector)
				repro = tries
				v.NeedsHistory = true
				v.Note = strings.TrimSpace(v.Note + " the case alone does not show it in a fresh process; re-running its shard up to the case does, in " + fmt.Sprint(hist) + " of " + fmt.Sprint(histTries) + " runs (state left behind by earlier cases)")
				b, _ = json.MarshalIndent(v, "", " ")
			}
		}
		if repro == 0 {
			unreproduced++
			fmt.Printf("UNREPRODUCED property=%s signature=%s (seen in-process, not in a fresh process; not reported)\n", prop, s)
			continue
		}
		// (the same for a violation that involves one of the random built-ins: it shows only for some of their draws)
		if (strings.HasPrefix(s, "race-detector/") || p.Nondet || strings.HasSuffix(s, ".shuffle") || strings.HasSuffix(s, ".rand") || strings.Contains(s, "shuffle+") || strings.Contains(s, "+shuffle")) && repro > 0 {
			repro = tries // a report of the race detector is believed when it shows up again at least once
		}
		if repro != tries {
			fmt.Fprintf(os.Stderr, "harness failure: signature %s reproduced %d/%d times in fresh processes\n", s, repro, tries)
			return 3
		}
		if isKnown {
			knownHit++
			lines = append(lines, fmt.Sprintf("KNOWN-FINDING: property=%s %s :: %s :: case=%s", prop, s, what, compact(v.Case, 300)))
			continue
		}
		unknown++
		h := sha1.Sum(append([]byte(s), v.Case...))
		dir := filepath.Join(envOr("VERIF_REPLAY_DIR", filepath.Join(verifDir, "replays")), prop)
		os.MkdirAll(dir, 0o755)
		path := filepath.Join(dir, hex.EncodeToString(h[:6])+".json")
		os.WriteFile(path, b, 0o644)
		lines = append(lines, fmt.Sprintf("VIOLATION property=%s replay=%s", prop, path))
		lines = append(lines, fmt.Sprintf("  signature=%s\n  case=%s\n  expected=%s\n  observed=%s", s, compact(v.Case, 600), v.Expected, clip(v.Observed, 600)))
	}

	// evidence
	cov["evaluations"] = evals
	cov["cases"] = cases
	cov["distinct_nontrivial"] = nontriv
	cov["rule"] = p.Rule
	if len(samples) == 0 {
		samples = append(samples, "no case was enumerated")
	}
	cov["samples"] = samples
	cov["exhaustive"] = exhaustive
	cov["workers"] = n
	if p.Bounds != nil {
		cov["bounds"] = p.Bounds(tier)
	}
	if len(counters) > 0 {
		cov["counters"] = counters
	}
	if len(classes) > 0 {
		cov["observed_outcome_classes"] = classes
	}
	if len(notes) > 0 {
		cov["notes"] = notes
	}
	cov["violating_cases_total"] = vioCount
	cov["distinct_violation_signatures"] = len(best)
	cov["known_findings_hit"] = knownHit
	cov["unreproduced_signatures"] = unreproduced
	if p.PostMerge != nil {
		p.PostMerge(tier, cov, results)
	}
	seed, _ := strconv.ParseInt(envOr("VERIF_SEED", "0"), 10, 64)
	ev := map[string]any{
		"property_id": prop,
		"tier":        tier,
		"seed":        seed,
		"level":       p.Level,
		"coverage":    cov,
		"assumptions": p.Assume,
		"wall_s":      time.Since(t0).Seconds(),
		"violations":  unknown,
	}
	eb, _ := json.MarshalIndent(ev, "", " ")
	evDir := envOr("VERIF_EVIDENCE_DIR", filepath.Join(verifDir, "evidence")) // self-tests against scratch copies write elsewhere
	os.MkdirAll(evDir, 0o755)
	if err := os.WriteFile(filepath.Join(evDir, prop+".json"), eb, 0o644); err != nil {
		fmt.Fprintln(os.Stderr, "cannot write evidence:", err)
		return 3
	}
	for _, l := range lines {
		fmt.Println(l)
	}
	fmt.Printf("%s %s: cases=%d evaluations=%d nontrivial=%d exhaustive=%v violations=%d known=%d wall=%.1fs\n",
		prop, tier, cases, evals, nontriv, exhaustive, unknown, knownHit, time.Since(t0).Seconds())
	if unknown > 0 {
		return 1
	}
	return 0
}

func compact(raw json.RawMessage, n int) string {
	var b bytes.Buffer
	if json.Compact(&b, raw) != nil {
		return clip(string(raw), n)
	}
	return clip(b.String(), n)
}

func clip(s string, n int) string {
	if len(s) > n {
		return s[:n] + "…"
	}
	return s
}

func tail(s string, n int) string {
	if len(s) > n {
		return s[len(s)-n:]
	}
	return s
}

func lastLine(path string) string {
	f, err := os.Open(path)
	if err != nil {
		return ""
	}
	defer f.Close()
	sc := bufio.NewScanner(f)
	sc.Buffer(make([]byte, 1<<20), 64<<20)
	last := ""
	for sc.Scan() {
		if t := sc.Text(); t != "" {
			last = t
		}
	}
	return last
}

func firstFatalLine(s string) string {
	for _, l := range strings.Split(s, "\n") {
		if strings.HasPrefix(l, "fatal error:") || strings.HasPrefix(l, "runtime:") || strings.HasPrefix(l, "panic:") || strings.Contains(l, "stack overflow") {
			return digitsRe.ReplaceAllString(clip(l, 80), "N")
		}
	}
	return "killed"
}
