package main

import (
	"html"
	"math"
	"strconv"
	"strings"
	"unicode/utf8"
)

// Reference implementations of the built-in functions (C11), written from the contracts in the
// property statement and, where the statement is silent, from each function's own doc comment.

type refOut struct {
	alts   []Val // admissible values (len 1 normally)
	errOK  bool  // an error is admissible
	unspec bool  // nothing is demanded beyond no-panic / valid UTF-8 / purity
	perm   bool  // the value must be a permutation of alts[0] (shuffle) / a member of alts[0] (rand)
	member bool
}

func rVal(v Val) refOut      { return refOut{alts: []Val{v}} }
func rErr() refOut           { return refOut{errOK: true} }
func rUnspec() refOut        { return refOut{unspec: true} }
func rValOrErr(v Val) refOut { return refOut{alts: []Val{v}, errOK: true} }
func strArr(ss []string) Val {
	a := Val{K: VArr}
	for _, s := range ss {
		a.A = append(a.A, vStr(s))
	}
	return a
}
func isKind(v Val, k string) bool { return v.K == k }

func refBuiltin(name string, recv Val, args []Val) refOut {
	arg := func(i int) *Val {
		if i < len(args) {
			return &args[i]
		}
		return nil
	}
	switch recv.K {
	case VStr:
		s := recv.S
		runes := []rune(s)
		switch name {
		case "len":
			return rVal(vInt(int64(len(runes))))
		case "split":
			sep := " "
			if a := arg(0); a != nil {
				if a.K != VStr {
					return rErr()
				}
				sep = a.S
			}
			return rVal(strArr(strings.Split(s, sep)))
		case "raw":
			return rVal(vStr(html.UnescapeString(s)))
		case "trim", "trimLeft", "trimRight":
			chars := "\t \n\r"
			if a := arg(0); a != nil {
				if a.K != VStr {
					return rErr()
				}
				chars = a.S
			}
			switch name {
			case "trim":
				return rVal(vStr(strings.Trim(s, chars)))
			case "trimLeft":
				return rVal(vStr(strings.TrimLeft(s, chars)))
			}
			return rVal(vStr(strings.TrimRight(s, chars)))
		case "upper":
			return rVal(vStr(strings.ToUpper(s)))
		case "lower":
			return rVal(vStr(strings.ToLower(s)))
		case "capitalize":
			if len(runes) == 0 {
				return rVal(vStr(""))
			}
			return rVal(vStr(strings.ToUpper(string(runes[0])) + string(runes[1:])))
		case "reverse":
			r := make([]rune, len(runes))
			for i, c := range runes {
				r[len(runes)-1-i] = c
			}
			return rVal(vStr(string(r)))
		case "contains":
			a := arg(0)
			if a == nil || a.K != VStr {
				return rErr()
			}
			return rVal(vBool(strings.Contains(s, a.S)))
		case "truncate":
			a := arg(0)
			if a == nil || a.K != VInt {
				return rErr()
			}
			ell := "..."
			if b := arg(1); b != nil {
				if b.K != VStr {
					return rErr() // "an error for wrong argument kinds", whether or not something is cut
				}
				ell = b.S
			}
			if a.I >= int64(len(runes)) {
				return rVal(vStr(s))
			}
			if a.I < 0 {
				return rValOrErr(vStr(ell)) // negative count: an error or the clamped result
			}
			return rVal(vStr(string(runes[:a.I]) + ell))
		case "decimal":
			return refDecimal(s, args)
		case "at", "first", "last":
			idx := int64(0)
			switch name {
			case "last":
				idx = -1
			case "at":
				if a := arg(0); a != nil {
					if a.K != VInt {
						return rErr()
					}
					idx = a.I
				}
			}
			n := int64(len(runes))
			if idx < 0 {
				idx += n
			}
			if idx < 0 || idx >= n {
				if name == "at" && arg(0) != nil && arg(0).I < -n {
					return rValOrErr(vNil())
				}
				return rVal(vNil())
			}
			return rVal(vStr(string(runes[idx])))
		case "repeat":
			a := arg(0)
			if a == nil || a.K != VInt {
				return rErr()
			}
			if a.I < 0 {
				return rValOrErr(vStr(""))
			}
			if a.I*int64(len(s)) > 1<<20 {
				return rUnspec()
			}
			return rVal(vStr(strings.Repeat(s, int(a.I))))
		}
	case VArr:
		el := recv.A
		n := int64(len(el))
		switch name {
		case "len":
			return rVal(vInt(n))
		case "join":
			sep := ","
			if a := arg(0); a != nil {
				if a.K != VStr {
					return rErr()
				}
				sep = a.S
			}
			parts := make([]string, len(el))
			for i, e := range el {
				p, ok := e.Print()
				if !ok {
					return rUnspec()
				}
				parts[i] = p
			}
			return rVal(vStr(strings.Join(parts, sep)))
		case "rand":
			if n == 0 {
				return rVal(vNil())
			}
			return refOut{alts: []Val{recv}, member: true}
		case "shuffle":
			return refOut{alts: []Val{recv}, perm: true}
		case "reverse":
			r := Val{K: VArr, A: make([]Val, len(el))}
			for i, e := range el {
				r.A[len(el)-1-i] = e
			}
			return rVal(r)
		case "slice":
			a := arg(0)
			if a == nil || a.K != VInt {
				return rErr()
			}
			start := a.I
			if start < 0 {
				start = 0
			}
			if start > n {
				start = n
			}
			end := n
			if b := arg(1); b != nil {
				if b.K != VInt {
					return rErr()
				}
				end = b.I
				if end > n {
					end = n
				}
				if end < 0 {
					// a negative end: clamped to the start (empty) or read as "to the end" — both clamp the bounds
					return refOut{alts: []Val{{K: VArr, A: append([]Val{}, el[start:]...)}, {K: VArr}}, errOK: true}
				}
				if end < start {
					return rValOrErr(Val{K: VArr})
				}
			}
			return rVal(Val{K: VArr, A: append([]Val{}, el[start:end]...)})
		case "contains":
			a := arg(0)
			if a == nil {
				return rErr()
			}
			for _, e := range el {
				if e.Equal(*a) {
					return rVal(vBool(true))
				}
			}
			return rVal(vBool(false))
		case "append":
			if len(args) == 0 {
				return rErr()
			}
			return rVal(Val{K: VArr, A: append(append([]Val{}, el...), args...)})
		case "prepend":
			if len(args) == 0 {
				return rErr()
			}
			return rVal(Val{K: VArr, A: append(append([]Val{}, args...), el...)})
		}
	case VInt:
		i := recv.I
		switch name {
		case "float":
			return rVal(vFloat(float64(i)))
		case "abs":
			if i < 0 {
				return rVal(vInt(-i)) // wrapping at the minimum
			}
			return rVal(vInt(i))
		case "str":
			return rVal(vStr(strconv.FormatInt(i, 10)))
		case "len":
			s := strconv.FormatInt(i, 10)
			return rVal(vInt(int64(len(strings.TrimPrefix(s, "-")))))
		case "decimal":
			return refDecimal(strconv.FormatInt(i, 10), args)
		}
	case VFloat:
		f := recv.F
		switch name {
		case "int", "ceil", "floor", "round":
			// a float that has no integer of the 64-bit range near it (NaN, an infinity, 1e19) cannot be converted
			r := f
			switch name {
			case "ceil":
				r = math.Ceil(f)
			case "floor":
				r = math.Floor(f)
			case "round":
				r = math.Round(f)
			}
			if r != r || r >= 9223372036854775808.0 || r < -9223372036854775808.0 {
				return rErr()
			}
		}
		if f != f || math.Abs(f) > 1e15 {
			return rUnspec()
		}
		switch name {
		case "int":
			return rVal(vInt(int64(f)))
		case "str":
			return rVal(vStr(strconv.FormatFloat(f, 'f', -1, 64)))
		case "abs":
			return rVal(vFloat(math.Abs(f)))
		case "ceil":
			return rVal(vInt(int64(math.Ceil(f))))
		case "floor":
			return rVal(vInt(int64(math.Floor(f))))
		case "round":
			return rVal(vInt(int64(math.Round(f))))
		}
	case VBool:
		switch name {
		case "binary":
			if recv.B {
				return rVal(vInt(1))
			}
			return rVal(vInt(0))
		case "then":
			if len(args) == 0 {
				return rErr()
			}
			if recv.B {
				return rVal(args[0])
			}
			if len(args) == 1 {
				return rVal(vNil())
			}
			return rVal(args[1])
		}
	}
	// no such function for this receiver type
	return rErr()
}

func refDecimal(s string, args []Val) refOut {
	if _, err := strconv.Atoi(s); err != nil {
		if len(args) > 2 {
			return rErr()
		}
		for i, a := range args {
			if (i == 0 && a.K != VStr) || (i == 1 && a.K != VInt) {
				return rErr() // "an error for wrong argument kinds", also when the receiver is not numeric
			}
		}
		return rVal(vStr(s))
	}
	if len(args) > 2 {
		return rErr()
	}
	sep, dec := ".", int64(2)
	if len(args) >= 1 {
		if args[0].K != VStr {
			return rErr()
		}
		sep = args[0].S
	}
	if len(args) == 2 {
		if args[1].K != VInt {
			return rErr()
		}
		dec = args[1].I
	}
	if dec < 0 {
		return rValOrErr(vStr(s))
	}
	if dec == 0 {
		return rVal(vStr(s))
	}
	if dec > 1<<20 {
		return rUnspec()
	}
	return rVal(vStr(s + sep + strings.Repeat("0", int(dec))))
}

func validUTF8Val(v Val) bool {
	switch v.K {
	case VStr:
		return utf8.ValidString(v.S)
	case VArr:
		for _, e := range v.A {
			if !validUTF8Val(e) {
				return false
			}
		}
	case VObj:
		for k, e := range v.O {
			if !utf8.ValidString(k) || !validUTF8Val(e) {
				return false
			}
		}
	}
	return true
}
