// Command instr rewrites a copy of the textwire sources for model checking and emits a
// `go build -overlay` file. Nothing is written into the repository: rewritten files and added
// files live in the output directory and are mapped over the originals by the overlay.
//
//	instr <repo> <outdir> <rt.go>
//
// Rewrites (DESIGN.md 2.2 / Appendix B):
//
//	R-fuel    verifrt.Tick(site) at the top of every function body and every for/range body
//	R-order   range over a map / reflect MapKeys() routed through verifrt.Order (choice point)
//	R-access  every use of a package-level variable inside a function body -> (*verifrt.R/W/A(id,&v))
//	R-state   one added file per package: registration of every package-level var, a reset function
//	          that replays the initialisers in dependency order; package textwire additionally gets
//	          accessors for Template.programs
package main

import (
	"encoding/json"
	"fmt"
	"go/ast"
	"go/token"
	"go/types"
	"os"
	"path/filepath"
	"sort"
	"strings"

	"golang.org/x/tools/go/packages"
)

type edit struct {
	pos, end int // replace [pos,end); pos==end => insert
	text     string
	seq      int
}

type siteInfo struct {
	ID   int    `json:"id"`
	Kind string `json:"kind"`
	Pos  string `json:"pos"`
	Func string `json:"func,omitempty"`
}

type varInfo struct {
	ID   int    `json:"id"`
	Name string `json:"name"`
	Type string `json:"type"`
	Pos  string `json:"pos"`
}

type accInfo struct {
	Var  int    `json:"var"`
	Kind string `json:"kind"`
	Pos  string `json:"pos"`
}

func main() {
	if len(os.Args) != 4 {
		fmt.Fprintln(os.Stderr, "usage: instr <repo> <outdir> <rt.go>")
		os.Exit(2)
	}
	repo, out, rtSrc := os.Args[1], os.Args[2], os.Args[3]
	repo, _ = filepath.Abs(repo)
	out, _ = filepath.Abs(out)
	rtSrc, _ = filepath.Abs(rtSrc)
	must(os.MkdirAll(out, 0o755))

	cfg := &packages.Config{
		Mode: packages.NeedName | packages.NeedFiles | packages.NeedCompiledGoFiles | packages.NeedSyntax |
			packages.NeedTypes | packages.NeedTypesInfo | packages.NeedImports | packages.NeedDeps | packages.NeedModule,
		Dir: repo,
		Env: append(os.Environ(), "GOFLAGS=-mod=mod", "GOPROXY=off", "GOSUMDB=off", "GOTOOLCHAIN=local"),
	}
	pkgs, err := packages.Load(cfg, "./...")
	must(err)
	if packages.PrintErrors(pkgs) > 0 {
		fmt.Fprintln(os.Stderr, "instr: the repository does not type-check")
		os.Exit(3)
	}
	sort.Slice(pkgs, func(i, j int) bool { return pkgs[i].PkgPath < pkgs[j].PkgPath })

	modPath := ""
	for _, p := range pkgs {
		if p.Module != nil {
			modPath = p.Module.Path
			break
		}
	}
	if modPath == "" {
		fmt.Fprintln(os.Stderr, "instr: no module path")
		os.Exit(3)
	}
	rtPath := modPath + "/zzverifrt"
	noShim := os.Getenv("VERIF_NOSHIM") != ""

	overlay := map[string]string{}
	varID := map[types.Object]int{}
	var vars []varInfo
	var sites []siteInfo
	var accs []accInfo
	var warnings []string
	stats := map[string]int{}

	skip := func(pp string) bool {
		rel := strings.TrimPrefix(pp, modPath)
		return strings.HasPrefix(rel, "/lsp") || strings.HasPrefix(rel, "/repl") || strings.HasPrefix(rel, "/textwire/example") || strings.HasPrefix(rel, "/zzverifrt")
	}

	// pass 1: number the package-level variables of every instrumented package
	for _, p := range pkgs {
		if skip(p.PkgPath) {
			continue
		}
		scope := p.Types.Scope()
		for _, n := range scope.Names() {
			if v, ok := scope.Lookup(n).(*types.Var); ok {
				varID[v] = len(vars)
				vars = append(vars, varInfo{len(vars), p.PkgPath + "." + n, v.Type().String(), p.Fset.Position(v.Pos()).String()})
			}
		}
	}

	for _, p := range pkgs {
		if skip(p.PkgPath) {
			continue
		}
		embedVars := map[string]bool{}
		seq := 0
		for i, f := range p.Syntax {
			fname := p.CompiledGoFiles[i]
			if strings.HasSuffix(fname, "_test.go") {
				continue
			}
			src, err := os.ReadFile(fname)
			must(err)
			tf := p.Fset.File(f.Pos())
			base := tf.Base()
			off := func(pos token.Pos) int { return int(pos) - base }
			posStr := func(pos token.Pos) string {
				pp := p.Fset.Position(pos)
				rel, _ := filepath.Rel(repo, pp.Filename)
				return fmt.Sprintf("%s:%d", rel, pp.Line)
			}
			var edits []edit
			add := func(pos, end int, text string) {
				seq++
				edits = append(edits, edit{pos, end, text, seq})
			}
			newSite := func(kind string, pos token.Pos, fn string) int {
				id := len(sites)
				sites = append(sites, siteInfo{id, kind, posStr(pos), fn})
				return id
			}
			// go:embed variables cannot be reset
			for _, d := range f.Decls {
				gd, ok := d.(*ast.GenDecl)
				if !ok || gd.Tok != token.VAR {
					continue
				}
				for _, cg := range []*ast.CommentGroup{gd.Doc} {
					if cg != nil && strings.Contains(cg.Text()+commentRaw(cg), "go:embed") {
						for _, s := range gd.Specs {
							for _, n := range s.(*ast.ValueSpec).Names {
								embedVars[n.Name] = true
							}
						}
					}
				}
				for _, s := range gd.Specs {
					vs := s.(*ast.ValueSpec)
					if vs.Doc != nil && strings.Contains(commentRaw(vs.Doc), "go:embed") {
						for _, n := range vs.Names {
							embedVars[n.Name] = true
						}
					}
				}
			}

			// sync and sync/atomic are redirected to the scheduler-aware shims
			if !noShim {
				for _, is := range f.Imports {
					path := strings.Trim(is.Path.Value, `"`)
					shim := ""
					switch path {
					case "sync":
						shim = rtPath + "/vsync"
					case "sync/atomic":
						shim = rtPath + "/vatomic"
					}
					if shim == "" {
						continue
					}
					name := filepath.Base(path)
					if is.Name != nil {
						name = is.Name.Name
					}
					add(off(is.Pos()), off(is.End()), name+` "`+shim+`"`)
					stats["shimmed_imports"]++
				}
			}
			needRT := false

			var stack []ast.Node
			var funcNames []string
			inFunc := 0
			curFunc := func() string {
				if len(funcNames) == 0 {
					return ""
				}
				return funcNames[len(funcNames)-1]
			}
			ast.Inspect(f, func(n ast.Node) bool {
				if n == nil {
					top := stack[len(stack)-1]
					stack = stack[:len(stack)-1]
					switch top.(type) {
					case *ast.FuncDecl, *ast.FuncLit:
						inFunc--
						funcNames = funcNames[:len(funcNames)-1]
					}
					return true
				}
				stack = append(stack, n)
				switch x := n.(type) {
				case *ast.FuncDecl:
					inFunc++
					name := x.Name.Name
					if x.Recv != nil && len(x.Recv.List) > 0 {
						name = types.ExprString(x.Recv.List[0].Type) + "." + name
					}
					funcNames = append(funcNames, p.Name+"."+name)
					if x.Body != nil {
						id := newSite("func", x.Body.Lbrace, curFunc())
						add(off(x.Body.Lbrace)+1, off(x.Body.Lbrace)+1, fmt.Sprintf(" verifrt.Tick(%d);", id))
						stats["tick"]++
					}
				case *ast.FuncLit:
					inFunc++
					funcNames = append(funcNames, curFunc()+".func")
					id := newSite("func", x.Body.Lbrace, curFunc())
					add(off(x.Body.Lbrace)+1, off(x.Body.Lbrace)+1, fmt.Sprintf(" verifrt.Tick(%d);", id))
					stats["tick"]++
				case *ast.ForStmt:
					id := newSite("loop", x.For, curFunc())
					add(off(x.Body.Lbrace)+1, off(x.Body.Lbrace)+1, fmt.Sprintf(" verifrt.Tick(%d);", id))
					stats["tick"]++
				case *ast.RangeStmt:
					_, isMap := p.TypesInfo.TypeOf(x.X).Underlying().(*types.Map)
					hasVars := x.Key != nil || x.Value != nil
					if isMap && hasVars {
						id := newSite("maprange", x.For, curFunc())
						stats["maprange"]++
						k, v := "_", "_"
						if x.Key != nil {
							k = string(src[off(x.Key.Pos()):off(x.Key.End())])
						}
						if x.Value != nil {
							v = string(src[off(x.Value.Pos()):off(x.Value.End())])
						}
						asg := ":="
						if x.Tok == token.ASSIGN {
							asg = "="
						}
						var bind string
						switch {
						case k != "_" && v != "_":
							bind = fmt.Sprintf(" %s, %s %s verifE.K, verifE.V;", k, v, asg)
						case k != "_":
							bind = fmt.Sprintf(" %s %s verifE.K;", k, asg)
						case v != "_":
							bind = fmt.Sprintf(" %s %s verifE.V;", v, asg)
						default:
							bind = " _ = verifE;"
						}
						add(off(x.For), off(x.X.Pos()), fmt.Sprintf("for _, verifE := range verifrt.Order(%d, ", id))
						add(off(x.X.End()), off(x.X.End()), ")")
						add(off(x.Body.Lbrace)+1, off(x.Body.Lbrace)+1, fmt.Sprintf("%s verifrt.Tick(%d); {", bind, id))
						add(off(x.Body.Rbrace), off(x.Body.Rbrace), "}")
						// a body that mutates the ranged map would make the snapshot differ from Go's live iteration
						xs := types.ExprString(x.X)
						ast.Inspect(x.Body, func(m ast.Node) bool {
							switch y := m.(type) {
							case *ast.AssignStmt:
								for _, l := range y.Lhs {
									if ie, ok := l.(*ast.IndexExpr); ok && types.ExprString(ie.X) == xs {
										warnings = append(warnings, "map mutated while ranged: "+posStr(y.Pos()))
									}
								}
							case *ast.CallExpr:
								if id, ok := y.Fun.(*ast.Ident); ok && id.Name == "delete" && len(y.Args) > 0 && types.ExprString(y.Args[0]) == xs {
									warnings = append(warnings, "map mutated while ranged: "+posStr(y.Pos()))
								}
							}
							return true
						})
					} else {
						id := newSite("loop", x.For, curFunc())
						add(off(x.Body.Lbrace)+1, off(x.Body.Lbrace)+1, fmt.Sprintf(" verifrt.Tick(%d);", id))
						stats["tick"]++
					}
				case *ast.CallExpr:
					// reflect.Value.MapKeys()
					if sel, ok := x.Fun.(*ast.SelectorExpr); ok && sel.Sel.Name == "MapKeys" && len(x.Args) == 0 {
						if t := p.TypesInfo.TypeOf(sel.X); t != nil && t.String() == "reflect.Value" {
							id := newSite("mapkeys", x.Pos(), curFunc())
							stats["mapkeys"]++
							add(off(x.Pos()), off(x.Pos()), fmt.Sprintf("verifrt.OrderValues(%d, ", id))
							add(off(x.End()), off(x.End()), ")")
						}
					}
				case *ast.Ident:
					if inFunc == 0 {
						return true
					}
					obj := p.TypesInfo.Uses[x]
					v, ok := obj.(*types.Var)
					if !ok || v.IsField() || v.Pkg() == nil || v.Parent() != v.Pkg().Scope() {
						return true
					}
					id, known := varID[v]
					if !known {
						return true // variable of a package outside the module
					}
					kind := "R"
					i := len(stack) - 2
					child := ast.Node(x)
					start := off(x.Pos())
					if i >= 0 {
						if sel, ok := stack[i].(*ast.SelectorExpr); ok && sel.Sel == x {
							child = sel // qualified identifier pkg.Var
							start = off(sel.Pos())
							i--
						}
					}
				climb:
					for ; i >= 0; i-- {
						switch par := stack[i].(type) {
						case *ast.SelectorExpr:
							if par.X != child {
								break climb
							}
							// method value/call rooted at the variable: opaque
							if s := p.TypesInfo.Selections[par]; s != nil && s.Kind() != types.FieldVal {
								kind = "A"
								break climb
							}
							child = par
						case *ast.IndexExpr:
							if par.X != child {
								break climb
							}
							child = par
						case *ast.ParenExpr:
							child = par
						case *ast.StarExpr:
							child = par
						case *ast.AssignStmt:
							for _, l := range par.Lhs {
								if l == child {
									kind = "W"
								}
							}
							break climb
						case *ast.IncDecStmt:
							if par.X == child {
								kind = "W"
							}
							break climb
						case *ast.UnaryExpr:
							if par.Op == token.AND && par.X == child {
								kind = "A"
							}
							break climb
						case *ast.CallExpr:
							// delete(m, k) / clear(m) rooted at the variable are writes
							if fid, ok := par.Fun.(*ast.Ident); ok && (fid.Name == "delete" || fid.Name == "clear") && len(par.Args) > 0 && par.Args[0] == child {
								kind = "W"
							}
							break climb
						default:
							break climb
						}
					}
					name := string(src[start:off(x.End())])
					add(start, off(x.End()), fmt.Sprintf("(*verifrt.%s(%d, &%s))", kind, id, name))
					accs = append(accs, accInfo{id, kind, posStr(x.Pos())})
					stats["acc"+kind]++
				}
				return true
			})
			if len(edits) == 0 {
				continue
			}
			for _, e := range edits {
				if strings.Contains(e.text, "verifrt.") {
					needRT = true
				}
			}
			if needRT {
				add(off(f.Name.End()), off(f.Name.End()), "\nimport verifrt \""+rtPath+"\"\n")
			}
			// apply from the end backwards; among inserts at one offset, later-created first so that
			// the earlier-created text ends up first in the file
			sort.SliceStable(edits, func(i, j int) bool {
				if edits[i].pos != edits[j].pos {
					return edits[i].pos > edits[j].pos
				}
				if edits[i].end != edits[j].end {
					return edits[i].end > edits[j].end // a replacement starting here is applied before the inserts at the same offset
				}
				return edits[i].seq > edits[j].seq
			})
			b := append([]byte(nil), src...)
			lastPos := len(b) + 1
			for _, e := range edits {
				if e.end > lastPos {
					fmt.Fprintf(os.Stderr, "instr: overlapping edits in %s at %d\n", fname, e.pos)
					os.Exit(3)
				}
				b = append(append(append([]byte{}, b[:e.pos]...), e.text...), b[e.end:]...)
				lastPos = e.pos
			}
			if !strings.Contains(string(src), "//go:build") {
				b = append([]byte("//go:build verif\n\n"), b...)
			}
			rel, _ := filepath.Rel(repo, fname)
			dst := filepath.Join(out, "src", rel)
			must(os.MkdirAll(filepath.Dir(dst), 0o755))
			must(os.WriteFile(dst, b, 0o644))
			overlay[fname] = dst
		}

		// R-state: registration + reset for this package
		if len(p.GoFiles) == 0 {
			continue
		}
		var sb strings.Builder
		sb.WriteString("//go:build verif\n\npackage " + p.Name + "\n\nimport verifrt \"" + rtPath + "\"\n\n")
		sb.WriteString("func init() {\n")
		scope := p.Types.Scope()
		nvars := 0
		for _, n := range scope.Names() {
			if v, ok := scope.Lookup(n).(*types.Var); ok {
				sb.WriteString(fmt.Sprintf("\tverifrt.RegisterVar(%d, %q, &%s)\n", varID[v], p.PkgPath+"."+n, n))
				nvars++
			}
		}
		isRoot := p.PkgPath == modPath
		sb.WriteString(fmt.Sprintf("\tverifrt.RegisterReset(%q, %v, verifResetPkg)\n}\n\n", p.PkgPath, isRoot))
		// reset: replay initialisers in dependency order, zero the others
		sb.WriteString("func verifResetPkg() {\n")
		initialised := map[string]bool{}
		fileOf := func(pos token.Pos) (*ast.File, []byte) {
			for i, f := range p.Syntax {
				if f.Pos() <= pos && pos <= f.End() {
					src, _ := os.ReadFile(p.CompiledGoFiles[i])
					return f, src
				}
			}
			return nil, nil
		}
		for _, ini := range p.TypesInfo.InitOrder {
			f, src := fileOf(ini.Rhs.Pos())
			if f == nil {
				continue
			}
			base := p.Fset.File(f.Pos()).Base()
			rhs := string(src[int(ini.Rhs.Pos())-base : int(ini.Rhs.End())-base])
			var lhs []string
			for _, l := range ini.Lhs {
				lhs = append(lhs, l.Name())
				initialised[l.Name()] = true
			}
			sb.WriteString("\t" + strings.Join(lhs, ", ") + " = " + rhs + "\n")
		}
		for _, f := range p.Syntax {
			for _, d := range f.Decls {
				gd, ok := d.(*ast.GenDecl)
				if !ok || gd.Tok != token.VAR {
					continue
				}
				for _, s := range gd.Specs {
					vs := s.(*ast.ValueSpec)
					for _, n := range vs.Names {
						if n.Name == "_" || initialised[n.Name] || embedVars[n.Name] || vs.Type == nil {
							continue
						}
						sb.WriteString(fmt.Sprintf("\t{\n\t\tvar verifZero %s\n\t\t%s = verifZero\n\t}\n", types.ExprString(vs.Type), n.Name))
					}
				}
			}
		}
		sb.WriteString("}\n")
		if isRoot {
			sb.WriteString(rootExtras)
		}
		dir := filepath.Dir(p.GoFiles[0])
		rel, _ := filepath.Rel(repo, dir)
		dst := filepath.Join(out, "src", rel, "zz_verif_state.go")
		must(os.MkdirAll(filepath.Dir(dst), 0o755))
		// imports needed by the replayed initialisers: reuse the import sets of the package's files
		body := sb.String()
		body = addImports(body, p)
		if !noShim {
			body = strings.Replace(body, `import sync "sync"`, `import sync "`+rtPath+`/vsync"`, 1)
			body = strings.Replace(body, `import atomic "sync/atomic"`, `import atomic "`+rtPath+`/vatomic"`, 1)
		}
		must(os.WriteFile(dst, []byte(body), 0o644))
		overlay[filepath.Join(dir, "zz_verif_state.go")] = dst
		stats["vars"] += nvars
	}

	overlay[filepath.Join(repo, "zzverifrt", "rt.go")] = rtSrc
	overlay[filepath.Join(repo, "zzverifrt", "tick.go")] = filepath.Join(filepath.Dir(rtSrc), "tick.go")
	overlay[filepath.Join(repo, "zzverifrt", "tick_race.go")] = filepath.Join(filepath.Dir(rtSrc), "tick_race.go")
	overlay[filepath.Join(repo, "zzverifrt", "vsync", "vsync.go")] = filepath.Join(filepath.Dir(rtSrc), "vsync", "vsync.go")
	overlay[filepath.Join(repo, "zzverifrt", "vatomic", "vatomic.go")] = filepath.Join(filepath.Dir(rtSrc), "vatomic", "vatomic.go")
	js, _ := json.MarshalIndent(map[string]any{"Replace": overlay}, "", " ")
	must(os.WriteFile(filepath.Join(out, "overlay.json"), js, 0o644))
	meta, _ := json.MarshalIndent(map[string]any{
		"module": modPath, "vars": vars, "sites": sites, "accesses": accs, "stats": stats, "warnings": warnings, "shim": !noShim,
	}, "", " ")
	must(os.WriteFile(filepath.Join(out, "instr.json"), meta, 0o644))
	fmt.Printf("instr: module=%s vars=%d sites=%d stats=%v files=%d warnings=%d\n", modPath, len(vars), len(sites), stats, len(overlay), len(warnings))
}

// addImports adds to the generated state file every import of the package's own files whose
// package name occurs as a qualifier in the generated text (the replayed initialisers are
// copied source text and may mention config.New, map[byte]token.TokenType, …).
func addImports(body string, p *packages.Package) string {
	seen := map[string]bool{}
	var imps []string
	for _, f := range p.Syntax {
		for _, is := range f.Imports {
			path := strings.Trim(is.Path.Value, `"`)
			name := ""
			if is.Name != nil {
				name = is.Name.Name
			} else if ip, ok := p.Imports[path]; ok {
				name = ip.Name
			} else {
				name = filepath.Base(path)
			}
			if name == "_" || name == "." || seen[name] {
				continue
			}
			if strings.Contains(body, name+".") {
				seen[name] = true
				imps = append(imps, fmt.Sprintf("import %s %q", name, path))
			}
		}
	}
	if len(imps) == 0 {
		return body
	}
	marker := "import verifrt"
	return strings.Replace(body, marker, strings.Join(imps, "\n")+"\n"+marker, 1)
}

func commentRaw(cg *ast.CommentGroup) string {
	var sb strings.Builder
	for _, c := range cg.List {
		sb.WriteString(c.Text)
		sb.WriteString("\n")
	}
	return sb.String()
}

const rootExtras = `
// VerifPrograms exposes the loaded program table (read-only use by the harness: state hashing).
func VerifPrograms(t *Template) map[string]any {
	out := map[string]any{}
	if t == nil {
		return out
	}
	for k, v := range t.programs {
		out[k] = v
	}
	return out
}

// VerifProgramNames lists the registered template names.
func VerifProgramNames(t *Template) []string {
	var out []string
	if t == nil {
		return out
	}
	for k := range t.programs {
		out = append(out, k)
	}
	return out
}
`

func must(err error) {
	if err != nil {
		fmt.Fprintln(os.Stderr, "instr:", err)
		os.Exit(3)
	}
}
