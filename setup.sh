#!/bin/bash
# Builds the framework from files on disk only (offline) and warms the Go build cache.
set -e
export GOFLAGS=-mod=mod GOPROXY=off GOSUMDB=off GOTOOLCHAIN=local
cd "$(dirname "$0")"
mkdir -p .bin evidence
(cd engine/instr && go build -o ../../.bin/instr .)
./run.sh selfcheck
./run.sh list
