#!/bin/bash
# usage: fixcommit.sh "<commit message starting with fix:>"   (run from anywhere; commits the working-tree change of /repo)
set -e
export GOFLAGS=-mod=mod GOPROXY=off GOSUMDB=off GOTOOLCHAIN=local
cd /repo
case "$1" in fix:*) ;; *) echo "message must start with fix:"; exit 2;; esac
if git diff --name-only | grep -q '_test.go'; then echo "tests must stay unedited"; exit 2; fi
out=$(go test -mod=mod -vet=off -count=1 -json ./... 2>&1) || true
pass=$(echo "$out" | grep -c '"Action":"pass","Package":"[^"]*","Test"' || true)
fail=$(echo "$out" | grep -c '"Action":"fail"' || true)
echo "tests: pass=$pass fail=$fail"
if [ "$fail" != "0" ] || [ "$pass" != "186" ]; then echo "$out" | grep -E '"Action":"fail"|"Output":".*(FAIL|---)' | head -30; exit 1; fi
git diff --stat
git commit -qam "$1"
git log --oneline | head -1
