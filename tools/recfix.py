#!/usr/bin/env python3
"""usage: recfix.py "<text after 'fixed: '>"  — appends a fixed: line to known-findings.json"""
import json, sys
p='/verif/known-findings.json'; d=json.load(open(p))
line="fixed: "+sys.argv[1]
if line not in d['fixed']: d['fixed'].append(line)
json.dump(d,open(p,'w'),indent=1)
print(len(d['fixed']),"fixed entries")
