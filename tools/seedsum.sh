#!/bin/bash
# usage: seedsum.sh <prop> <n> [extra evalseed args]   (seed dir /tmp/seed-<prop>/<n>)
p=$1; n=$2; shift 2
python3 /verif/tools/evalseed.py ${SEEDBASE:-/tmp/seed}-$p/$n $p "$@" > /var/tmp/seedres/${SEEDTAG:-r}$p-$n.json 2>/var/tmp/seedres/${SEEDTAG:-r}$p-$n.err
python3 -c "
import json
try:
    d=json.load(open('/var/tmp/seedres/${SEEDTAG:-r}$p-$n.json')); c=d['checks']
    print('$p/$n', 'suite:%s demoFailsWith:%s demoPassesWithout:%s'%(d.get('suite_passes_with_change'),d.get('demo_fails_with_change'),d.get('demo_passes_without_change')), 'DETECTED' if d['detected'] else 'MISSED', {q:(c[q]['rc'],c[q]['signatures'][:2]) for q in c})
except Exception as e: print('$p/$n', 'ERROR', e)
" | cut -c1-300
