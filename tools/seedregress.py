#!/usr/bin/env python3
"""Re-runs every seeded change of /verif/seeded against the current checks (quick tier) and writes seeded/regression.json.
A patch that no longer applies to HEAD (a later fix touched the same lines) is applied to the newest of the earlier commits it applies to."""
import json, os, subprocess, sys, glob
V = os.path.dirname(os.path.dirname(os.path.abspath(__file__)))
bases = ["HEAD"] + subprocess.run(["git","-C","/repo","log","--format=%h","-n","45"],capture_output=True,text=True).stdout.split()[1:]
only = sys.argv[1:]
out = {}
rp = os.path.join(V,"seeded","regression.json")
if only and os.path.exists(rp):
    out = json.load(open(rp))  # partial re-run: keep the other entries
for d in sorted(glob.glob(os.path.join(V,"seeded","C*-*"))):
    key = os.path.basename(d)
    if only and key not in only and key.split("-")[0] not in only: continue
    meta = json.load(open(os.path.join(d,"meta.json")))
    prop = meta["property"]
    also = [p.split()[0] for p in meta.get("detected_by","").split(", ") if p and p.split()[0] != prop]
    res = None
    for b in bases:
        cmd = ["python3", os.path.join(V,"tools","evalseed.py"), d, prop] + (["--also", ",".join(also)] if also else [])
        r = subprocess.run(cmd, env=dict(os.environ, SEED_BASE_COMMIT=b), capture_output=True, text=True)
        try:
            j = json.loads(r.stdout[r.stdout.index("{"):r.stdout.rindex("}")+1])
        except Exception:
            continue
        if j.get("applies") and j.get("suite_passes_with_change"):  # applies textually but no longer builds: older base
            res = j; res["base"] = b; break
    if res is None:
        out[key] = {"error": "patch applies to none of the recent commits"}
    else:
        det = [p for p,c in res["checks"].items() if c["violation"]]
        if res["base"] != "HEAD":
            # an older base still has defects that were repaired since: only a signature recorded for this seed counts there
            want = set(meta.get("signatures", []))
            det = [p for p in det if want & set(res["checks"][p].get("all_signatures") or res["checks"][p]["signatures"])] if want else det
        out[key] = {"base": res["base"], "suite": res["suite_passes_with_change"], "demo_fails_with": res["demo_fails_with_change"], "demo_passes_without": res["demo_passes_without_change"], "detected_by": det}
    print(key, out[key], flush=True)
    json.dump(out, open(os.path.join(V,"seeded","regression.json"),"w"), indent=1, sort_keys=True)
miss = [k for k,v in out.items() if not v.get("detected_by")]
print("missed:", miss)
