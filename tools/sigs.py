#!/usr/bin/env python3
import json,sys
d=json.load(open(sys.argv[1])) or []
n=int(sys.argv[2]) if len(sys.argv)>2 else 40
print(len(d),"signatures")
for v in d[:n]:
    print(v['signature'][:70],'|',v['expected'][:150],'|',v['observed'][:100])
