#!/usr/bin/env python3
"""Re-verifies a seeded change in a scratch worktree of /repo and runs the checks against it.
usage: evalseed.py <seed-dir> <property> [--also C09,C11] [--tier quick|thorough] [--keep-as NAME]
  seed-dir contains patch.diff and a demonstration (demo_test.go | demo/main.go)."""
import json, os, re, shutil, subprocess, sys, tempfile
V = os.path.dirname(os.path.dirname(os.path.abspath(__file__)))
env = dict(os.environ, GOFLAGS="-mod=mod", GOPROXY="off", GOSUMDB="off", GOTOOLCHAIN="local")
seed, prop = sys.argv[1], sys.argv[2]
also, tier, keep = [], "quick", None
for i, a in enumerate(sys.argv):
    if a == "--also": also = sys.argv[i + 1].split(",")
    if a == "--tier": tier = sys.argv[i + 1]
    if a == "--keep-as": keep = sys.argv[i + 1]
def sh(cmd, cwd=None, timeout=1800):
    return subprocess.run(cmd, cwd=cwd, env=env, capture_output=True, text=True, errors="replace", timeout=timeout)
wt = tempfile.mkdtemp(prefix="seedver-", dir="/tmp")
os.rmdir(wt)
res = {"property": prop, "seed": seed}
try:
    r = sh(["git", "-C", "/repo", "worktree", "add", "-q", "--detach", wt, os.environ.get("SEED_BASE_COMMIT", "HEAD")])
    assert r.returncode == 0, r.stderr
    patch = os.path.join(seed, "patch.diff")
    a = sh(["git", "-C", wt, "apply", "--check", patch])
    res["applies"] = a.returncode == 0
    if not res["applies"]:
        # later fix commits moved the context: merge the patch three-way (the blobs it was made from are in the repository);
        # the merged patch is then used in place of the stored one
        m = sh(["git", "-C", wt, "apply", "--3way", patch])
        d = sh(["git", "-C", wt, "diff", "HEAD"])
        sh(["git", "-C", wt, "reset", "-q", "--hard", "HEAD"])
        if m.returncode == 0 and "<<<<<<<" not in d.stdout and d.stdout.strip():
            merged = os.path.join(tempfile.gettempdir(), "seed-merged-%d.diff" % os.getpid())
            open(merged, "w").write(d.stdout)
            patch = merged
            res["applies"], res["merged_three_way"] = True, True
    if not res["applies"]:
        print(json.dumps(res)); sys.exit(1)
    # demonstration placement
    demo = None
    for cand in ["demo_test.go", "demo/main.go", "demo.go"]:
        if os.path.exists(os.path.join(seed, cand)): demo = cand
    def place_demo():
        if demo is None: return None
        src = open(os.path.join(seed, demo)).read()
        m = re.search(r"^package\s+(\w+)", src, re.M)
        pkg = m.group(1)
        if demo.endswith("_test.go"):
            base = pkg[:-5] if pkg.endswith("_test") else pkg
            d = "." if base in ("textwire",) else base
            if not os.path.isdir(os.path.join(wt, d)):
                os.makedirs(os.path.join(wt, d))  # a demonstration that is a package of its own
            dst = os.path.join(wt, d, "zz_seed_demo_test.go")
            shutil.copy(os.path.join(seed, demo), dst)
            return ("test", d, dst)
        d = os.path.join(wt, "zzseeddemo"); os.makedirs(d, exist_ok=True)
        dst = os.path.join(d, "main.go"); shutil.copy(os.path.join(seed, demo), dst)
        return ("main", "./zzseeddemo", dst)
    def run_demo(pl):
        if pl is None: return None
        if pl[0] == "test":
            notes = open(os.path.join(seed, "NOTES.md")).read().lower()
            race = ["-race"] if ("race" in notes and prop == "C15") or "go test -race" in notes else []
            r = sh(["go", "test", "-mod=mod", "-vet=off", "-count=1"] + race + ["./" + pl[1].lstrip("./") if pl[1] != "." else "."], cwd=wt)
        else:
            r = sh(["go", "run", pl[1]], cwd=wt)
        return r.returncode == 0, (r.stdout + r.stderr)[-400:]
    # without the change: demo passes
    pl = place_demo()
    ok0 = run_demo(pl)
    res["demo_passes_without_change"] = ok0[0] if ok0 else None
    if pl: os.remove(pl[2])
    # with the change
    sh(["git", "-C", wt, "apply", patch])
    t = sh(["go", "test", "-mod=mod", "-vet=off", "-count=1", "./..."], cwd=wt)
    res["suite_passes_with_change"] = t.returncode == 0
    pl = place_demo()
    ok1 = run_demo(pl)
    res["demo_fails_with_change"] = (not ok1[0]) if ok1 else None
    if ok1 and ok1[0]: res["demo_output"] = ok1[1]
    if pl:
        os.remove(pl[2])
        if pl[0] == "main": shutil.rmtree(os.path.join(wt, "zzseeddemo"), ignore_errors=True)
    # the checks
    det = {}
    for p in [prop] + also:
        dump = "/var/tmp/seeddump-%d.json" % os.getpid()
        c = subprocess.run([os.path.join(V, "run.sh"), p, tier], cwd=V, env=dict(env, VERIF_REPO=wt, VERIF_DUMP=dump, VERIF_EVIDENCE_DIR="/var/tmp/verif-selftest-evidence", VERIF_REPLAY_DIR="/var/tmp/verif-selftest-replays"), capture_output=True, text=True, errors="replace")
        sigs = re.findall(r"signature=(.*)", c.stdout)
        det[p] = {"rc": c.returncode, "violation": ("VIOLATION property=" + p) in c.stdout, "signatures": sigs[:3]}
        try:
            # every signature the run met (the VIOLATION lines show the five simplest only)
            det[p]["all_signatures"] = sorted({v["signature"] for v in (json.load(open(dump)) or [])})[:400]
            os.remove(dump)
        except Exception:
            pass
    res["checks"] = det
    res["detected"] = det[prop]["violation"]
finally:
    subprocess.run(["git", "-C", "/repo", "worktree", "remove", "--force", wt], capture_output=True)
    shutil.rmtree(wt, ignore_errors=True)
print(json.dumps(res, indent=1))
if keep and res.get("suite_passes_with_change") and res.get("demo_fails_with_change") and res.get("demo_passes_without_change"):
    d = os.path.join(V, "seeded", keep); os.makedirs(d, exist_ok=True)
    for f in os.listdir(seed):
        s = os.path.join(seed, f)
        if os.path.isfile(s): shutil.copy(s, os.path.join(d, f))
        elif os.path.isdir(s): shutil.copytree(s, os.path.join(d, f), dirs_exist_ok=True)
    json.dump(res, open(os.path.join(d, "verification.json"), "w"), indent=1)
    print("kept as", d)
