#!/bin/bash
# runs every check of MANIFEST.json in the given tier and prints one summary line per check
cd "$(dirname "$0")/.."
tier="${1:-quick}"
rc=0
for p in $(python3 -c "import json;print(' '.join(c['property_id'] for c in json.load(open('MANIFEST.json'))['checks']))"); do
  out=$(./run.sh "$p" "$tier" 2>&1); code=$?
  echo "$out" | grep -E "^(VIOLATION|KNOWN-FINDING|UNREPRODUCED)" | cut -c1-200
  echo "$out" | tail -1 | cut -c1-220
  [ $code -ne 0 ] && { echo "  -> exit $code"; rc=1; }
done
exit $rc
