#!/usr/bin/env python3
"""Regenerates /verif/MANIFEST.json from the table below (keeps it schema-valid at all times)."""
import json, os, sys
V = os.path.dirname(os.path.dirname(os.path.abspath(__file__)))
props = [json.loads(l)["id"] for l in open(os.path.join(V, "properties.jsonl"))]

# id -> (category, technique, text, note, design_ref)
CHECKS = json.load(open(os.path.join(V, "tools", "checks.json")))

checks, na = [], []
for pid in props:
    c = CHECKS.get(pid)
    if not c or not c.get("claimed", True):
        na.append({"property_id": pid, "reason": (c or {}).get("reason", "check not built yet in this session (see DESIGN.md section 10 for the order of construction)")})
        continue
    checks.append({
        "property_id": pid,
        "quick_cmd": f"./run.sh {pid} quick",
        "thorough_cmd": f"./run.sh {pid} thorough",
        "evidence_file": f"/verif/evidence/{pid}.json",
        "replay_cmd_template": "./run.sh replay {path}",
        "engine": "verifh",
        "level_claimed": {"category": c["category"], "text": c["text"], "design_ref": c.get("design_ref", f"DESIGN.md section 7 ({pid})")},
        "level_note": c["note"],
        "technique": c["technique"],
    })
m = {
    "version": 1,
    "setup_cmd": "./setup.sh",
    "hooks": {
        "guard": "verif",
        "enable": "go build -tags verif -overlay <generated overlay.json>  (run.sh: engine/instr rewrites a scratch copy of the current /repo sources; nothing is committed to /repo)",
        "baseline_off_cmd": "cd /repo && go test -mod=mod -vet=off -count=1 ./...",
        "source_commits": [],
        "add_only": True,
    },
    "engines": [
        {"name": "verifh", "path": "/verif/engine/h", "serves_properties": [c["property_id"] for c in checks],
         "kind_free_text": "hand-written bounded-exhaustive explorers in Go (sequence/tree enumeration, explicit-state BFS over the real entry points, deviation-bounded DFS over map-order choice points, preemption-bounded schedule DFS with a cooperative scheduler) driving the real textwire code of the current working tree, compared with the reference model RefTW"},
        {"name": "instr", "path": "/verif/engine/instr", "serves_properties": [c["property_id"] for c in checks],
         "kind_free_text": "source instrumenter (go/packages): fuel ticks, map-order choice points, package-variable access points, state registration/reset; emits a go build overlay"},
    ],
    "checks": checks,
    "not_applicable": na,
    "notes": "Every command rebuilds from /repo's current working tree (VERIF_REPO overrides the path for self-tests). Exit codes: 0 held, 1 VIOLATION, 3 harness failure (no verdict).",
}
json.dump(m, open(os.path.join(V, "MANIFEST.json"), "w"), indent=1)
print("MANIFEST.json:", len(checks), "checks,", len(na), "not_applicable")
